#!/bin/bash
# usage: tools/try_mutant.sh <patch.diff> <tier> <ID> [<ID> ...]
# Applies a seeded change to /repo, runs the given checks with VERIF_ROOT pointing to a scratch
# directory (so that evidence/ and replays/ of /verif are not touched), and always restores /repo.
set -u
PATCH="$1"; TIER="$2"; shift 2
SCRATCH=$(mktemp -d /tmp/vr-mut.XXXXXX)
mkdir -p "$SCRATCH"
cp -r /verif/corpus "$SCRATCH/corpus"
cp /verif/known-findings.txt "$SCRATCH/known-findings.txt"
if [ -n "$(git -C /repo status --porcelain)" ]; then echo "refusing: /repo has local modifications or untracked files"; exit 2; fi
trap 'git -C /repo reset -q --hard HEAD ; git -C /repo clean -fdq -- falcon-rust benchmark ; rm -rf "$SCRATCH"' EXIT
if ! git -C /repo apply "$PATCH" 2>/dev/null; then
    if git -C /repo apply --3way "$PATCH" >/dev/null 2>&1 && ! git -C /repo diff --name-only --diff-filter=U | grep -q .; then
        git -C /repo reset -q
        echo "(applied with a 3-way merge)"
    else
        git -C /repo reset -q --hard HEAD
        # patches written against the tree before the ntru_gen probe lines were added (hook commit 96dce0f):
        # take math.rs from before that commit (the probes are optional for the harness), then apply
        git -C /repo checkout b834386 -- falcon-rust/src/math.rs
        if ! git -C /repo apply "$PATCH"; then echo "patch does not apply to this head; use tools/try_mutant_scratch.sh (it falls back to the change's base commit)"; exit 2; fi
        git -C /repo reset -q
        echo "(applied on math.rs without the ntru_gen probe lines)"
    fi
fi
for id in "$@"; do
    start=$(date +%s)
    VERIF_ROOT="$SCRATCH" /verif/check "$id" "$TIER" > "$SCRATCH/$id.out" 2>&1
    rc=$?
    end=$(date +%s)
    echo "== $id $TIER exit=$rc ($((end-start))s)"
    grep -E "^(VIOLATION|KNOWN-FINDING|HARNESS-ERROR|  class:)" "$SCRATCH/$id.out" | cut -c1-260 | head -12
done
