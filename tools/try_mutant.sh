#!/bin/bash
# usage: tools/try_mutant.sh <patch.diff> <tier> <ID> [<ID> ...]
# Applies a seeded change to /repo, runs the given checks with VERIF_ROOT pointing to a scratch
# directory (so that evidence/ and replays/ of /verif are not touched), and always restores /repo.
set -u
PATCH="$1"; TIER="$2"; shift 2
SCRATCH=$(mktemp -d /tmp/vr-mut.XXXXXX)
mkdir -p "$SCRATCH"
cp -r /verif/corpus "$SCRATCH/corpus"
cp /verif/known-findings.txt "$SCRATCH/known-findings.txt"
if [ -n "$(git -C /repo status --porcelain)" ]; then echo "refusing: /repo has local modifications or untracked files"; exit 2; fi
trap 'git -C /repo reset -q --hard HEAD ; git -C /repo clean -fdq -- falcon-rust benchmark ; rm -rf "$SCRATCH"' EXIT
if ! git -C /repo apply "$PATCH" 2>/dev/null; then
    # patches written against the tree before the ntru_gen probe lines were added (hook commit 96dce0f):
    # take math.rs from before that commit (the probes are optional for the harness), then apply
    git -C /repo checkout b834386 -- falcon-rust/src/math.rs
    if ! git -C /repo apply "$PATCH"; then echo "patch does not apply"; exit 2; fi
    git -C /repo reset -q
    echo "(applied on math.rs without the ntru_gen probe lines)"
fi
for id in "$@"; do
    start=$(date +%s)
    VERIF_ROOT="$SCRATCH" /verif/check "$id" "$TIER" > "$SCRATCH/$id.out" 2>&1
    rc=$?
    end=$(date +%s)
    echo "== $id $TIER exit=$rc ($((end-start))s)"
    grep -E "^(VIOLATION|KNOWN-FINDING|HARNESS-ERROR|  class:)" "$SCRATCH/$id.out" | cut -c1-260 | head -12
done
