#!/bin/bash
# usage: tools/regress_seeded.sh [tier] [id ...]
# Runs every seeded change (default: all under /verif/seeded) against the quick check of the property it
# breaks, WITHOUT touching /repo or /verif: the change is applied in a scratch worktree of /repo and the
# checks run from a scratch copy of /verif whose simulator depends on that worktree. Prints one line per
# change; exit 1 if a change is not caught.
set -u
TIER="${1:-quick}"; shift || true
S=/tmp/mutcheck
mkdir -p $S
rm -rf $S/verif.new; mkdir -p $S/verif.new
rsync -a --exclude 'sim/target*' --exclude '.git' --exclude 'replays' --exclude 'evidence' /verif/ $S/verif.new/
# keep the build directories of an earlier invocation
if [ -d $S/verif/sim/target ]; then mv $S/verif/sim/target $S/verif.new/sim/target; fi
if [ -d $S/verif/sim/target-deep ]; then mv $S/verif/sim/target-deep $S/verif.new/sim/target-deep; fi
rm -rf $S/verif; mv $S/verif.new $S/verif
mkdir -p $S/verif/evidence $S/verif/replays
git -C /repo worktree remove --force $S/repo 2>/dev/null; rm -rf $S/repo; git -C /repo worktree prune
git -C /repo worktree add --detach $S/repo HEAD -q || exit 2
HEADC=$(git -C /repo rev-parse HEAD)
sed -i "s#/repo/falcon-rust#$S/repo/falcon-rust#" $S/verif/sim/Cargo.toml
IDS="$@"; [ -z "$IDS" ] && IDS=$(ls /verif/seeded | grep -v not-kept)
missed=0
for id in $IDS; do
    prop=${id%%-*}
    git -C $S/repo reset -q --hard; git -C $S/repo clean -fdq; git -C $S/repo checkout -q --detach $HEADC 2>/dev/null
    mode=$(/verif/tools/apply_seeded.sh $S/repo /verif/seeded/$id/patch.diff $prop)
    if [ "$mode" = FAIL ]; then echo "$id: PATCH-DOES-NOT-APPLY"; missed=1; continue; fi
    extra=""; [ "$mode" = BASE ] && extra="VERIF_C08_NO_FORK=1"
    # C08-f1 is the change that led to defect D7: on its base commit the fork scenario is the point
    [ "$id" = C08-f1 ] && extra=""
    start=$(date +%s)
    env $extra VERIF_ROOT=$S/verif $S/verif/check $prop $TIER > $S/$id.out 2>&1; rc=$?
    end=$(date +%s)
    cls=$(grep -m1 "^  class:" $S/$id.out | cut -c10-120)
    echo "$id: exit=$rc ($((end-start))s) [$mode] $cls"
    [ $rc -ne 1 ] && missed=1
done
git -C /repo worktree remove --force $S/repo 2>/dev/null
exit $missed
