#!/bin/bash
# usage: tools/apply_seeded.sh <worktree of /repo> <patch.diff> [property]
# Applies a seeded change to a (clean) worktree. Seeded changes were written against earlier heads of /repo
# (recorded as "applies_to" in their meta.json); later hook and fix commits moved a few lines. Tried in order:
# plain apply; 3-way apply (the patch names its base blobs); math.rs from before the ntru_gen probe lines;
# and finally the base commit 45d4d17 itself (prints BASE: the caller must then switch off sub-checks that
# report defects repaired after that commit, i.e. VERIF_C08_NO_FORK=1).
W="$1"; P="$2"; PROP="${3:-}"
# Changes to C08 live in the first lines of sign(), which the D7 fix (salt from OsRng) rewrote: a 3-way
# merge of such a change with the fix applies cleanly but leaves the salt with OsRng, i.e. it silently
# repairs the seeded defect. Those changes are tested on their base commit instead.
clean() { git -C "$W" reset -q --hard; git -C "$W" clean -fdq; }
HEADC=$(git -C "$W" rev-parse HEAD)
clean
if [ "$PROP" = C08 ]; then
    # written before the D7 fix? then it applies to the base commit, and is tested there (see above: on the
    # repaired head the salt comes from OsRng whatever such a change does to the other generator)
    git -C "$W" checkout -q --detach 45d4d17 2>/dev/null
    if git -C "$W" apply "$P" 2>/dev/null; then echo BASE; exit 0; fi
    clean
    git -C "$W" checkout -q --detach "$HEADC" 2>/dev/null
fi
if git -C "$W" apply "$P" 2>/dev/null; then echo PLAIN; exit 0; fi
clean
if [ "$PROP" != C08 ] && git -C "$W" apply --3way "$P" >/dev/null 2>&1 && ! git -C "$W" diff --name-only --diff-filter=U | grep -q .; then git -C "$W" reset -q; echo THREEWAY; exit 0; fi
clean
git -C "$W" checkout -q b834386 -- falcon-rust/src/math.rs 2>/dev/null
if git -C "$W" apply "$P" 2>/dev/null; then git -C "$W" reset -q; echo OLDMATH; exit 0; fi
clean
git -C "$W" checkout -q --detach 45d4d17 2>/dev/null
if git -C "$W" apply "$P" 2>/dev/null; then echo BASE; exit 0; fi
git -C "$W" checkout -q b834386 -- falcon-rust/src/math.rs 2>/dev/null
if git -C "$W" apply "$P" 2>/dev/null; then git -C "$W" reset -q; echo BASE; exit 0; fi
echo FAIL; exit 1
