#!/bin/bash
# usage: tools/try_mutant_scratch.sh <patch.diff> <tier> <ID> [<ID> ...]
# Like try_mutant.sh, but WITHOUT touching /repo or /verif: the change is applied in a scratch worktree
# of /repo and the checks run from a scratch copy of /verif whose simulator depends on that worktree
# (scratch directory: $MUTSCRATCH, default /tmp/mutcheck2; build directories are kept between calls).
set -u
PATCH="$1"; TIER="$2"; shift 2
S="${MUTSCRATCH:-/tmp/mutcheck2}"
mkdir -p $S
rm -rf $S/verif.new; mkdir -p $S/verif.new
rsync -a --exclude 'sim/target*' --exclude '.git' --exclude 'replays' --exclude 'evidence' --exclude 'seeded' /verif/ $S/verif.new/
if [ -d $S/verif/sim/target ]; then mv $S/verif/sim/target $S/verif.new/sim/target; fi
if [ -d $S/verif/sim/target-deep ]; then mv $S/verif/sim/target-deep $S/verif.new/sim/target-deep; fi
rm -rf $S/verif; mv $S/verif.new $S/verif
mkdir -p $S/verif/evidence $S/verif/replays
git -C /repo worktree remove --force $S/repo 2>/dev/null; rm -rf $S/repo; git -C /repo worktree prune
git -C /repo worktree add --detach $S/repo HEAD -q || exit 2
sed -i "s#/repo/falcon-rust#$S/repo/falcon-rust#" $S/verif/sim/Cargo.toml
mode=$(/verif/tools/apply_seeded.sh $S/repo "$PATCH" "$1")
if [ "$mode" = FAIL ]; then echo "patch does not apply"; git -C /repo worktree remove --force $S/repo; exit 2; fi
echo "(applied: $mode)"
extra=""; [ "$mode" = BASE ] && extra="VERIF_C08_NO_FORK=1"
for id in "$@"; do
    start=$(date +%s)
    env $extra VERIF_ROOT=$S/verif $S/verif/check "$id" "$TIER" > $S/$id.out 2>&1; rc=$?
    end=$(date +%s)
    echo "== $id $TIER exit=$rc ($((end-start))s)"
    grep -E "^(VIOLATION|KNOWN-FINDING|HARNESS-ERROR|  class:)" "$S/$id.out" | cut -c1-260 | head -12
done
git -C /repo worktree remove --force $S/repo 2>/dev/null
