//! Function-entry yield points ("deep" mode). In this build falcon-rust is
//! compiled without optimisation and with `-Zinstrument-mcount`, so every
//! function of the code under test - including the monomorphised std generics
//! it uses (locks, thread-locals, reference counts) - calls `mcount` on entry;
//! the simulator turns that call into a yield point of the baton scheduler.
//! This is what lets the scheduler pre-empt a caller thread *inside* code that
//! touches no entropy seam (verify, the decoders, the non-sampling parts of
//! keygen and sign), at close to native speed.
//!
//! Not every entry is equally interesting: > 99 % are arithmetic kernels and
//! iterator plumbing (FFT butterflies, field operations, slice indexing). A
//! bitmap over the text segment, built once from the symbol table, marks those
//! functions; their entries are ignored, so that the scheduler's pre-emptions
//! concentrate on structural code (API functions, codecs, sampler control flow,
//! std::sync, thread-locals, allocation of shared objects).
//!
//! Off by default: without the `deep` feature the symbol does not exist and
//! falcon-rust is not instrumented.

use crate::sched::Handle;
use std::cell::Cell;
use std::rc::Rc;

thread_local! {
    static CURRENT: Cell<*const Handle> = const { Cell::new(std::ptr::null()) };
    static BUSY: Cell<bool> = const { Cell::new(false) };
    static COUNTDOWN: Cell<u32> = const { Cell::new(1) };
    static BATCH: Cell<u32> = const { Cell::new(1) };
    static LCG: Cell<u64> = const { Cell::new(0x9E3779B97F4A7C15) };
    static ENTRIES: Cell<u64> = const { Cell::new(0) };
    static COUNTED: Cell<u64> = const { Cell::new(0) };
}

/// Make function entries of the code under test yield points of `h` on this thread.
pub struct DeepGuard {
    _keep: Rc<Handle>,
}

pub fn install(h: &Rc<Handle>) -> DeepGuard {
    LCG.with(|l| l.set(0x9E3779B97F4A7C15 ^ ((h.tid as u64 + 1) << 32)));
    COUNTDOWN.with(|c| c.set(1));
    BATCH.with(|c| c.set(1));
    CURRENT.with(|c| c.set(Rc::as_ptr(h)));
    DEBUG_SAMPLE.with(|d| d.set(std::env::var("VERIF_DEEP_SAMPLE").ok().map(|v| v.parse::<u64>().unwrap_or(997).max(1)).unwrap_or(0)));
    DeepGuard { _keep: h.clone() }
}

impl Drop for DeepGuard {
    fn drop(&mut self) {
        CURRENT.with(|c| c.set(std::ptr::null()));
    }
}

/// (all function entries seen, entries that counted as yield points) on this thread
pub fn entries() -> (u64, u64) {
    (ENTRIES.with(|e| e.get()), COUNTED.with(|e| e.get()))
}

// ---------------------------------------------------------------------------
// bitmap of "boring" code (16-byte granules of the text segment)
// ---------------------------------------------------------------------------

thread_local! {
    /// print every k-th counted function entry (0 = never)
    static DEBUG_SAMPLE: Cell<u64> = const { Cell::new(0) };
}
static mut DEBUG_LO: usize = 0;
static mut TEXT_LO: usize = 0;
static mut TEXT_HI: usize = 0;
static mut BORING: Vec<u64> = Vec::new();
static INIT: std::sync::Once = std::sync::Once::new();

/// Own crate of a v0-mangled symbol: the first crate identifier in it
/// (`Cs<base62>_<len><name>`); for a monomorphised generic this is the crate
/// that defines the function, not the crates of its type parameters.
fn own_crate(sym: &str) -> Option<&str> {
    let b = sym.as_bytes();
    let mut i = 0;
    while i + 2 < b.len() {
        if b[i] == b'C' && b[i + 1] == b's' {
            let mut j = i + 2;
            while j < b.len() && b[j].is_ascii_alphanumeric() {
                j += 1;
            }
            if j < b.len() && b[j] == b'_' {
                let mut k = j + 1;
                let mut len = 0usize;
                while k < b.len() && b[k].is_ascii_digit() {
                    len = len * 10 + (b[k] - b'0') as usize;
                    k += 1;
                }
                if len > 0 && k + len <= b.len() {
                    return Some(&sym[k..k + len]);
                }
            }
        }
        i += 1;
    }
    None
}

/// modules of falcon-rust that are arithmetic kernels (or the hooks themselves)
const KERNEL_MODULES: [&str; 7] = ["8fast_fft", "12falcon_field", "18cyclotomic_fourier", "9u32_field", "7inverse", "11verif_hooks", "10polynomial"];

/// Is a function entry of this symbol a yield point? Interesting are the
/// functions defined by falcon-rust outside its arithmetic kernels (API
/// functions, codecs, sampler and key-generation control flow, hash_to_point),
/// and std::sync / core::sync (locks, atomics, Once, Arc) wherever they are
/// monomorphised; everything else (iterators, slices, pointer plumbing,
/// arithmetic, hashing internals, thread-local accessors) is not.
fn interesting(sym: &str) -> bool {
    let own = own_crate(sym).unwrap_or("");
    // position of the own crate's name, to look only at the function's own path
    let tail = sym.find(own).map(|p| &sym[p..]).unwrap_or(sym);
    // the own path ends where the first generic argument's crate begins
    let own_path = match tail[own.len()..].find("Cs") {
        Some(p) => &tail[..own.len() + p],
        None => tail,
    };
    if own == "falcon_rust" {
        // per-element closures (map/filter bodies) are arithmetic noise; the calls they make are seen anyway
        if sym.starts_with("_RNC") {
            return false;
        }
        if own_path.contains("13hash_to_point") {
            return true;
        }
        return !KERNEL_MODULES.iter().any(|m| own_path.contains(m));
    }
    if (own == "std" || own == "core" || own == "alloc") && own_path.contains("4sync") {
        return true;
    }
    false
}

/// Build the bitmap from the symbol table of the running executable (`nm`).
/// Called once in the parent process; forked children inherit it.
pub fn init() {
    INIT.call_once(|| {
        if !cfg!(feature = "deep") {
            return;
        }
        let exe = match std::env::current_exe() {
            Ok(e) => e,
            Err(_) => return,
        };
        let out = match std::process::Command::new("nm").arg("-S").arg("--defined-only").arg(&exe).output() {
            Ok(o) => o,
            Err(_) => return,
        };
        let text = String::from_utf8_lossy(&out.stdout);
        let mut syms: Vec<(usize, usize, bool)> = Vec::new();
        let mut anchor: Option<usize> = None;
        for l in text.lines() {
            let mut it = l.split_whitespace();
            let (a, s, t, name) = match (it.next(), it.next(), it.next(), it.next()) {
                (Some(a), Some(s), Some(t), Some(n)) => (a, s, t, n),
                _ => continue,
            };
            if !(t == "T" || t == "t" || t == "W" || t == "w") {
                continue;
            }
            let (addr, size) = match (usize::from_str_radix(a, 16), usize::from_str_radix(s, 16)) {
                (Ok(x), Ok(y)) => (x, y),
                _ => continue,
            };
            if name == "falcon_sim_deep_anchor" {
                anchor = Some(addr);
            }
            let boring = !interesting(name);
            syms.push((addr, size, boring));
        }
        let anchor = match anchor {
            Some(a) => a,
            None => {
                if std::env::var("VERIF_DEEP_DEBUG").is_ok() {
                    eprintln!("deep: anchor symbol not found among {} symbols", syms.len());
                }
                return;
            }
        };
        let base = (falcon_sim_deep_anchor as usize).wrapping_sub(anchor);
        let lo = syms.iter().map(|s| s.0).min().unwrap_or(0);
        let hi = syms.iter().map(|s| s.0 + s.1).max().unwrap_or(0);
        let granules = (hi - lo) / 16 + 2;
        let mut bm = vec![0u64; granules / 64 + 1];
        for (addr, size, boring) in syms {
            if !boring {
                continue;
            }
            let g0 = (addr - lo) / 16;
            let g1 = (addr + size.max(1) - 1 - lo) / 16;
            for g in g0..=g1 {
                bm[g / 64] |= 1 << (g % 64);
            }
        }
        if std::env::var("VERIF_DEEP_DEBUG").is_ok() {
            eprintln!("deep: base {:#x} text {:#x}..{:#x} boring granules {}", base, lo, hi, bm.iter().map(|w| w.count_ones() as usize).sum::<usize>());
        }
        unsafe {
            DEBUG_LO = lo;
            TEXT_LO = base.wrapping_add(lo);
            TEXT_HI = base.wrapping_add(hi);
            BORING = bm;
        }
    });
}

#[no_mangle]
#[inline(never)]
pub extern "C" fn falcon_sim_deep_anchor() -> usize {
    // only its address matters (load base of the executable)
    0x5ea1
}

#[cfg(feature = "deep")]
core::arch::global_asm!(
    ".globl mcount",
    ".type mcount,@function",
    "mcount:",
    "    mov rdi, [rsp]",
    "    jmp {handler}",
    handler = sym mcount_handler,
);

/// `ret` is the return address of the `call mcount`, i.e. an address inside the
/// instrumented function that was just entered.
#[cfg(feature = "deep")]
#[no_mangle]
pub unsafe extern "C" fn mcount_handler(ret: usize) {
    let p = CURRENT.with(|c| c.get());
    if p.is_null() {
        return;
    }
    ENTRIES.with(|e| e.set(e.get() + 1));
    // in the dense prologue of an aligned operation start every function entry counts, arithmetic kernels
    // included: a table that is being filled, a buffer that is being copied, must be interruptible there
    #[allow(static_mut_refs)]
    if !(*p).dense_active() {
        if ret >= TEXT_LO && ret < TEXT_HI {
            let g = (ret - TEXT_LO) / 16;
            if let Some(w) = BORING.get(g / 64) {
                if (w >> (g % 64)) & 1 == 1 {
                    return;
                }
            }
        }
    }
    let nc = COUNTED.with(|e| {
        e.set(e.get() + 1);
        e.get()
    });
    let period = DEBUG_SAMPLE.with(|d| d.get());
    if period > 0 && nc % period == 0 {
        eprintln!("deep-sample {:#x}", ret - TEXT_LO + DEBUG_LO);
    }
    let c = COUNTDOWN.with(|c| {
        let v = c.get() - 1;
        c.set(v);
        v
    });
    if c > 0 {
        return;
    }
    // not re-entrant: the yield point itself must not yield
    if BUSY.with(|b| b.replace(true)) {
        COUNTDOWN.with(|c| c.set(1));
        return;
    }
    let batch = BATCH.with(|b| b.get());
    (*p).yield_point_n(batch as u64);
    // next batch: 1..=15 entries, from a per-thread deterministic generator, so that
    // pre-emption points are not aligned to a fixed stride
    let next = if (*p).dense_active() {
        // dense prologue of an aligned operation start: every counted entry is a decision point
        1
    } else {
        LCG.with(|l| {
            let x = l.get().wrapping_mul(6364136223846793005).wrapping_add(1442695040888963407);
            l.set(x);
            ((x >> 40) % 15) as u32 + 1
        })
    };
    BATCH.with(|b| b.set(next));
    COUNTDOWN.with(|c| c.set(next));
    BUSY.with(|b| b.set(false));
}
