//! Run driver (parallel, order-independent merge), statistics, evidence files,
//! violation reporting with replay files, known-findings matching.

use crate::rng::{hash_bytes, hash_u64, mix};
use serde_json::{json, Map, Value};
use std::collections::{BTreeMap, BTreeSet};
use std::path::PathBuf;
use std::time::Instant;

pub const DEFAULT_SEED: u64 = 20260926;

/// Very large thorough batches keep only the distinct-case hashes whose low `DISTINCT_SHIFT` bits are
/// zero: the reported `distinct_nontrivial` is then the exact number of distinct cases inside that
/// hash-sample, a conservative lower bound on the total (the rule text of the evidence says so).
pub static DISTINCT_SHIFT: std::sync::atomic::AtomicU32 = std::sync::atomic::AtomicU32::new(0);

pub fn keep_distinct(st: &mut Stats, h: u64) {
    let sh = DISTINCT_SHIFT.load(std::sync::atomic::Ordering::Relaxed);
    if sh == 0 || h & ((1u64 << sh) - 1) == 0 {
        st.distinct.insert(h);
    }
}

pub fn distinct_rule_suffix() -> String {
    let sh = DISTINCT_SHIFT.load(std::sync::atomic::Ordering::Relaxed);
    if sh == 0 {
        String::new()
    } else {
        format!("; in this tier only cases whose hash has {} low zero bits are counted as distinct (an exact count inside a 1/{} hash-sample, i.e. a lower bound on the total)", sh, 1u64 << sh)
    }
}

#[derive(Clone, Copy, Debug, PartialEq, Eq)]
pub enum Tier {
    Quick,
    Thorough,
}

impl Tier {
    pub fn name(&self) -> &'static str {
        match self {
            Tier::Quick => "quick",
            Tier::Thorough => "thorough",
        }
    }
}

pub fn verif_root() -> PathBuf {
    std::env::var("VERIF_ROOT").map(PathBuf::from).unwrap_or_else(|_| PathBuf::from("/verif"))
}

pub fn workers() -> usize {
    std::env::var("VERIF_WORKERS")
        .ok()
        .and_then(|s| s.parse().ok())
        .unwrap_or_else(|| std::thread::available_parallelism().map(|n| n.get()).unwrap_or(4).min(16))
}

#[derive(Clone, Debug)]
pub struct Violation {
    pub property: &'static str,
    /// violation class: the oracle and call site, e.g. "unwind at falcon-rust/src/encoding.rs:179"
    pub class: String,
    pub detail: String,
    /// self-contained replay plan (literal inputs), minimised
    pub replay: Value,
    pub run: u64,
}

impl Violation {
    pub fn to_json(&self) -> Value {
        json!({"property": self.property, "class": self.class, "detail": self.detail, "replay": self.replay, "run": self.run})
    }
    pub fn from_json(v: &Value) -> Option<Violation> {
        let prop = v.get("property")?.as_str()?;
        let property: &'static str = ["C01", "C02", "C03", "C05", "C06", "C08", "C09", "C10", "C15", "C16"].iter().find(|p| **p == prop).copied()?;
        Some(Violation {
            property,
            class: v.get("class")?.as_str()?.to_string(),
            detail: v.get("detail")?.as_str()?.to_string(),
            replay: v.get("replay")?.clone(),
            run: v.get("run")?.as_u64()?,
        })
    }
}

#[derive(Clone, Debug, Default)]
pub struct Stats {
    pub counters: BTreeMap<String, u64>,
    /// hashes of distinct non-trivial cases
    pub distinct: BTreeSet<u64>,
    /// hashes of distinct interleavings (schedule traces)
    pub interleavings: BTreeSet<u64>,
    pub overlap_states: BTreeSet<(u8, u8)>,
    pub steps: u64,
    pub evaluations: u64,
    pub samples: Vec<Value>,
    pub notes: BTreeSet<String>,
    /// event-log hash of the whole batch (order-independent merge by run index)
    pub log_hash: u64,
    /// raw observations a check wants to evaluate over the whole batch (e.g. salts)
    pub blobs: Vec<(u64, Vec<u8>)>,
}

impl Stats {
    pub fn to_json(&self) -> Value {
        json!({
            "c": self.counters,
            "d": self.distinct.iter().collect::<Vec<_>>(),
            "i": self.interleavings.iter().collect::<Vec<_>>(),
            "o": self.overlap_states.iter().map(|(a, b)| (*a as u32) << 8 | *b as u32).collect::<Vec<_>>(),
            "s": self.steps,
            "e": self.evaluations,
            "x": self.samples,
            "n": self.notes.iter().collect::<Vec<_>>(),
            "h": self.log_hash,
            "b": self.blobs.iter().map(|(t, b)| json!([t, crate::rng::hex(b)])).collect::<Vec<_>>(),
        })
    }
    pub fn from_json(v: &Value) -> Option<Stats> {
        let mut st = Stats::default();
        for (k, x) in v.get("c")?.as_object()? {
            st.counters.insert(k.clone(), x.as_u64()?);
        }
        st.distinct = v.get("d")?.as_array()?.iter().filter_map(|x| x.as_u64()).collect();
        st.interleavings = v.get("i")?.as_array()?.iter().filter_map(|x| x.as_u64()).collect();
        st.overlap_states = v.get("o")?.as_array()?.iter().filter_map(|x| x.as_u64()).map(|x| ((x >> 8) as u8, x as u8)).collect();
        st.steps = v.get("s")?.as_u64()?;
        st.evaluations = v.get("e")?.as_u64()?;
        st.samples = v.get("x")?.as_array()?.clone();
        st.notes = v.get("n")?.as_array()?.iter().filter_map(|x| x.as_str().map(|s| s.to_string())).collect();
        st.log_hash = v.get("h")?.as_u64()?;
        for b in v.get("b")?.as_array()? {
            let a = b.as_array()?;
            st.blobs.push((a.get(0)?.as_u64()?, crate::rng::unhex(a.get(1)?.as_str()?)?));
        }
        Some(st)
    }
    pub fn add(&mut self, key: &str, n: u64) {
        if n > 0 || !self.counters.contains_key(key) {
            *self.counters.entry(key.to_string()).or_insert(0) += n;
        }
    }
    pub fn inc(&mut self, key: &str) {
        self.add(key, 1)
    }
    pub fn sample(&mut self, mut v: Value) {
        if self.samples.len() < 6 {
            shorten(&mut v);
            self.samples.push(v);
        }
    }
    pub fn merge(&mut self, o: Stats) {
        for (k, v) in o.counters {
            *self.counters.entry(k).or_insert(0) += v;
        }
        self.distinct.extend(o.distinct);
        self.interleavings.extend(o.interleavings);
        self.overlap_states.extend(o.overlap_states);
        self.steps += o.steps;
        self.evaluations += o.evaluations;
        for s in o.samples {
            self.sample(s);
        }
        self.notes.extend(o.notes);
        self.blobs.extend(o.blobs);
        self.log_hash = hash_u64(self.log_hash, o.log_hash);
    }
}

/// keep evidence samples readable: long strings (hex of keys, 1 MiB messages) are abbreviated
pub fn shorten(v: &mut Value) {
    match v {
        Value::String(s) if s.len() > 160 => {
            let head: String = s.chars().take(96).collect();
            *s = format!("{}… ({} chars)", head, s.len());
        }
        Value::Array(a) => a.iter_mut().for_each(shorten),
        Value::Object(m) => m.values_mut().for_each(shorten),
        _ => {}
    }
}

#[derive(Default)]
pub struct RunOutcome {
    pub stats: Stats,
    pub violations: Vec<Violation>,
}

/// Event log of one run: a running hash plus (optionally) the literal lines.
pub struct EventLog {
    pub hash: u64,
    pub seq: u64,
    pub lines: Option<Vec<String>>,
}

impl EventLog {
    pub fn new(keep: bool) -> Self {
        EventLog {
            hash: 0,
            seq: 0,
            lines: if keep { Some(Vec::new()) } else { None },
        }
    }
    pub fn event(&mut self, s: &str) {
        self.seq += 1;
        self.hash = hash_bytes(hash_u64(self.hash, self.seq), s.as_bytes());
        if let Some(l) = self.lines.as_mut() {
            l.push(format!("{} {}", self.seq, s));
        }
    }
}

impl RunOutcome {
    pub fn to_bytes(&self) -> Vec<u8> {
        serde_json::to_vec(&json!({"stats": self.stats.to_json(), "violations": self.violations.iter().map(|v| v.to_json()).collect::<Vec<_>>()})).unwrap_or_default()
    }
    pub fn from_bytes(b: &[u8]) -> Option<RunOutcome> {
        let v: Value = serde_json::from_slice(b).ok()?;
        Some(RunOutcome {
            stats: Stats::from_json(v.get("stats")?)?,
            violations: v.get("violations")?.as_array()?.iter().map(Violation::from_json).collect::<Option<Vec<_>>>()?,
        })
    }
}

/// Execute runs 0..n, each in its own forked child process (see isolate.rs),
/// distributed over `nworkers` worker processes; merge in run-index order, so
/// the verdict and the evidence do not depend on the worker count.
/// `on_death` turns a run whose process died (signal, abort, wall-clock limit)
/// into a violation of the calling property.
pub fn parallel_runs<F>(n: u64, nworkers: usize, f: F) -> RunOutcome
where
    F: Fn(u64) -> RunOutcome + Sync,
{
    let deadline = std::env::var("VERIF_DEADLINE_S").ok().and_then(|s| s.parse::<f64>().ok());
    let items: Vec<u64> = (0..n).collect();
    let g = |i: u64| f(i).to_bytes();
    let results = crate::isolate::fork_map(&items, nworkers, deadline, &g);
    let mut out = RunOutcome::default();
    for (i, r) in results {
        match r {
            Ok(bytes) => match RunOutcome::from_bytes(&bytes) {
                Some(mut o) => {
                    // a run in which the scheduler had to hand the baton on because its holder blocked on a
                    // lock of the code under test is not bit-exact by construction: say so in its replays
                    let handoffs = o.stats.counters.get("sched.lock_handoffs").copied().unwrap_or(0);
                    if handoffs > 0 {
                        for v in o.violations.iter_mut() {
                            if let Value::Object(m) = &mut v.replay {
                                m.insert("lock_handoffs".into(), json!(handoffs));
                            }
                        }
                    }
                    out.stats.merge(o.stats);
                    out.violations.extend(o.violations);
                }
                None => {
                    out.stats.inc("harness.undecodable_run_result");
                }
            },
            Err(fail) => {
                // a panic whose site is in the harness, or a broken pipe / fork, is a harness
                // error; everything else that kills a run's process is a violation
                let harness = matches!(&fail, crate::isolate::ChildFailure::Harness(_) | crate::isolate::ChildFailure::Exit(_))
                    || matches!(&fail, crate::isolate::ChildFailure::Panic { in_repo: false, .. });
                if harness {
                    out.stats.inc("harness.run_failed");
                    out.stats.notes.insert(format!("run {}: {:?}", i, fail));
                } else {
                    out.stats.inc("runs_whose_process_died");
                    out.stats.blobs.push((u64::MAX - i, fail.describe().into_bytes()));
                }
            }
        }
    }
    out
}

/// Runs whose process died (recorded by `parallel_runs`): (run index, description).
pub fn take_dead_runs(st: &mut Stats) -> Vec<(u64, String)> {
    let mut dead = Vec::new();
    let mut keep = Vec::new();
    for (t, b) in std::mem::take(&mut st.blobs) {
        if t > u64::MAX / 2 {
            dead.push((u64::MAX - t, String::from_utf8_lossy(&b).to_string()));
        } else {
            keep.push((t, b));
        }
    }
    st.blobs = keep;
    dead
}

pub fn run_seed(seed: u64, prop: &str, run: u64) -> u64 {
    mix(&[seed, hash_bytes(0, prop.as_bytes()), run])
}

// ---------------------------------------------------------------------------
// known findings
// ---------------------------------------------------------------------------

#[derive(Debug, Clone)]
pub struct Finding {
    pub property: String,
    pub class: String,
    pub text: String,
}

/// Format, one entry per line:
///   finding: property=C03 class="<violation class>" <free text>
///   fixed: property=C03 <commit> class="<violation class>" <free text>
/// `fixed:` entries suppress nothing.
pub fn load_known_findings() -> Vec<Finding> {
    let p = verif_root().join("known-findings.txt");
    let mut v = Vec::new();
    if let Ok(s) = std::fs::read_to_string(p) {
        for line in s.lines() {
            let line = line.trim();
            if !line.starts_with("finding:") {
                continue;
            }
            let prop = line
                .split_whitespace()
                .find_map(|t| t.strip_prefix("property="))
                .unwrap_or("")
                .to_string();
            let class = line
                .find("class=\"")
                .and_then(|i| {
                    let rest = &line[i + 7..];
                    rest.find('"').map(|j| rest[..j].to_string())
                })
                .unwrap_or_default();
            v.push(Finding {
                property: prop,
                class,
                text: line.to_string(),
            });
        }
    }
    v
}

// ---------------------------------------------------------------------------
// final report
// ---------------------------------------------------------------------------

pub struct Report {
    pub property: &'static str,
    pub tier: Tier,
    pub seed: u64,
    pub start: Instant,
    pub stats: Stats,
    pub violations: Vec<Violation>,
    pub rule: String,
    pub assumptions: Vec<String>,
    pub components: Value,
    pub extra: Map<String, Value>,
}

impl Report {
    pub fn new(property: &'static str, tier: Tier, seed: u64) -> Self {
        Report {
            property,
            tier,
            seed,
            start: Instant::now(),
            stats: Stats::default(),
            violations: Vec::new(),
            rule: String::new(),
            assumptions: Vec::new(),
            components: json!({}),
            extra: Map::new(),
        }
    }

    pub fn absorb(&mut self, o: RunOutcome) {
        self.stats.merge(o.stats);
        self.violations.extend(o.violations);
    }

    /// Write replay files, print VIOLATION / KNOWN-FINDING lines, write the
    /// evidence file; returns the process exit code.
    pub fn finish(mut self, confirm: impl Fn(&Value) -> Option<String>) -> i32 {
        let root = verif_root();
        let known = load_known_findings();
        let mut new_violations = 0usize;
        let mut known_hits: BTreeMap<String, u64> = BTreeMap::new();
        // one report per violation class (the first = lowest run index, already minimised by the check)
        let mut seen_classes: BTreeSet<String> = BTreeSet::new();
        let mut harness_error = false;
        // runs whose process died are violations too (abort, stack overflow, no termination)
        for (run, what) in take_dead_runs(&mut self.stats) {
            self.violations.push(Violation {
                property: self.property,
                class: format!("run's process died: {}", what),
                detail: format!("run {} of this batch", run),
                replay: json!({"kind": "rerun"}),
                run,
            });
        }
        if self.stats.counters.get("harness.undecodable_run_result").copied().unwrap_or(0) > 0 {
            eprintln!("HARNESS-ERROR: some run results could not be decoded");
            harness_error = true;
        }
        if self.stats.counters.get("harness.run_failed").copied().unwrap_or(0) > 0 {
            eprintln!("HARNESS-ERROR: runs failed inside the harness: {:?}", self.stats.notes);
            harness_error = true;
        }
        self.violations.sort_by_key(|v| v.run);
        let total_violations = self.violations.len();
        for v in &self.violations {
            if !seen_classes.insert(v.class.clone()) {
                continue;
            }
            if let Some(k) = known.iter().find(|k| k.property == v.property && k.class == v.class) {
                *known_hits.entry(k.text.clone()).or_insert(0) += 1;
                println!("KNOWN-FINDING: property={} {} ({})", v.property, v.class, v.detail);
                continue;
            }
            let dir = root.join("replays");
            let _ = std::fs::create_dir_all(&dir);
            let name = format!(
                "{}-{}-{}-{:08x}.json",
                v.property,
                self.seed,
                v.run,
                hash_bytes(0, v.class.as_bytes()) as u32
            );
            let path = dir.join(name);
            // candidates: the minimised plan, then the whole run re-executed from (seed, run)
            let rerun = json!({"kind": "rerun", "tier": self.tier.name()});
            // a plan may carry its own fallback (e.g. deep runs: re-execute the run by index in the instrumented build)
            let mut primary = v.replay.clone();
            let own_fallback = primary.as_object_mut().and_then(|m| m.remove("fallback"));
            let mut candidates = vec![primary];
            if let Some(fb) = own_fallback {
                candidates.push(fb);
            } else if v.replay.get("kind").and_then(|k| k.as_str()) != Some("rerun") && v.run < (1 << 40) {
                candidates.push(rerun);
            } else if v.replay.get("kind").and_then(|k| k.as_str()) == Some("rerun") {
                candidates = vec![rerun];
            }
            let mut reported = false;
            let mut last: Option<String> = None;
            // runs that involved real locks replay with probability < 1: several attempts each
            // (also runs that observe the real OS-seeded generator: their schedule depends on entropy the
            // simulator does not own; their plans say "probabilistic")
            let racy = v.replay.get("lock_handoffs").and_then(|x| x.as_u64()).unwrap_or(0) > 0 || v.replay.get("probabilistic").and_then(|x| x.as_bool()).unwrap_or(false);
            let attempts = if racy { 4 } else { 1 };
            let ncand = candidates.len();
            for (ci, cand) in candidates.into_iter().enumerate() {
                let mut doc = cand;
                if let Value::Object(m) = &mut doc {
                    m.insert("property".into(), json!(v.property));
                    m.insert("seed".into(), json!(self.seed));
                    m.insert("run".into(), json!(v.run));
                    m.insert("violation".into(), json!(v.class));
                    m.insert("detail".into(), json!(v.detail));
                    if ci > 0 {
                        m.insert("note".into(), json!("the minimised plan did not reproduce in a fresh process; this file re-executes the whole run from (seed, run)"));
                    }
                }
                if let Err(e) = std::fs::write(&path, serde_json::to_string_pretty(&doc).unwrap()) {
                    eprintln!("HARNESS-ERROR: cannot write replay file {}: {}", path.display(), e);
                    harness_error = true;
                    break;
                }
                // the replay must reproduce the same class in a fresh process before we report it
                for _ in 0..attempts {
                    match confirm(&doc) {
                        Some(c) if c == v.class => {
                            println!("VIOLATION property={} replay={}", v.property, path.display());
                            println!("  class: {}", v.class);
                            println!("  detail: {}", v.detail);
                            new_violations += 1;
                            reported = true;
                            break;
                        }
                        other => last = other,
                    }
                }
                if reported {
                    break;
                }
                if racy && ci + 1 == ncand {
                    // Observed in the real code, in a run whose schedule depended on real locks (the baton
                    // holder blocked and the baton was handed on): the failure is genuine, the schedule is
                    // not bit-exact, and this file reproduces it only with some probability.
                    if let Value::Object(m) = &mut doc {
                        m.insert("note".into(), json!("observed once in a run whose schedule is not bit-exact by construction (it blocked on locks of the code under test, or it used the real OS-seeded generator); this file reproduces the violation with probability < 1 (it did not in the confirmation attempts)"));
                    }
                    let _ = std::fs::write(&path, serde_json::to_string_pretty(&doc).unwrap());
                    println!("VIOLATION property={} replay={}", v.property, path.display());
                    println!("  class: {}", v.class);
                    println!("  detail: {} (schedule not bit-exact: real locks or real entropy; replay is probabilistic)", v.detail);
                    new_violations += 1;
                    reported = true;
                }
            }
            if !reported {
                eprintln!(
                    "HARNESS-ERROR: no replay of run {} reproduced class {:?} in a fresh process (got {:?}); see {}",
                    v.run,
                    v.class,
                    last,
                    path.display()
                );
                harness_error = true;
            }
        }

        let wall = self.start.elapsed().as_secs_f64();
        let st = &self.stats;
        let mut cov = Map::new();
        cov.insert("evaluations".into(), json!(st.evaluations));
        cov.insert("distinct_nontrivial".into(), json!(st.distinct.len()));
        cov.insert("rule".into(), json!(self.rule));
        cov.insert("samples".into(), Value::Array(st.samples.clone()));
        cov.insert("exhaustive".into(), json!(false));
        cov.insert(
            "counters".into(),
            Value::Object(st.counters.iter().map(|(k, v)| (k.clone(), json!(v))).collect()),
        );
        cov.insert("logical_steps_simulated".into(), json!(st.steps));
        cov.insert(
            "simulated_time_note".into(),
            json!("this library has no clock, timer or deadline; simulated time is reported in logical steps (entropy draws and operation boundaries)"),
        );
        cov.insert("distinct_interleavings".into(), json!(st.interleavings.len()));
        cov.insert("distinct_overlap_states".into(), json!(st.overlap_states.len()));
        cov.insert("runs_per_hour".into(), json!(if wall > 0.0 { (st.counters.get("runs").copied().unwrap_or(0) as f64 * 3600.0 / wall).round() } else { 0.0 }));
        cov.insert("event_log_hash".into(), json!(format!("{:016x}", st.log_hash)));
        cov.insert("components".into(), self.components.clone());
        cov.insert("notes".into(), json!(st.notes.iter().collect::<Vec<_>>()));
        cov.insert("violations_total_before_dedup".into(), json!(total_violations));
        cov.insert(
            "known_findings_hit".into(),
            json!(known_hits.keys().collect::<Vec<_>>()),
        );
        for (k, v) in self.extra.iter() {
            cov.insert(k.clone(), v.clone());
        }
        let ev = json!({
            "property_id": self.property,
            "tier": self.tier.name(),
            "seed": self.seed,
            "level": "exploration",
            "coverage": Value::Object(cov),
            "assumptions": self.assumptions,
            "wall_s": (wall * 1000.0).round() / 1000.0,
            "violations": new_violations,
        });
        let evdir = root.join("evidence");
        let _ = std::fs::create_dir_all(&evdir);
        let evpath = evdir.join(format!("{}.json", self.property));
        if let Err(e) = std::fs::write(&evpath, serde_json::to_string_pretty(&ev).unwrap()) {
            eprintln!("HARNESS-ERROR: cannot write evidence {}: {}", evpath.display(), e);
            harness_error = true;
        }
        println!(
            "{} {} seed={} evaluations={} distinct={} violations={} wall={:.1}s",
            self.property,
            self.tier.name(),
            self.seed,
            st.evaluations,
            st.distinct.len(),
            new_violations,
            wall
        );
        if new_violations > 0 {
            1
        } else if harness_error {
            2
        } else {
            0
        }
    }
}

/// Re-run a replay file in a fresh process; returns the class it reproduced.
pub fn confirm_in_fresh_process(doc: &Value) -> Option<String> {
    let exe = std::env::current_exe().ok()?;
    let tmp = verif_root().join("replays").join(format!(".confirm-{}.tmp", std::process::id()));
    std::fs::write(&tmp, serde_json::to_string(doc).ok()?).ok()?;
    let out = std::process::Command::new(exe).arg("replay").arg(&tmp).output().ok()?;
    let _ = std::fs::remove_file(&tmp);
    let stdout = String::from_utf8_lossy(&out.stdout);
    for line in stdout.lines() {
        if let Some(c) = line.strip_prefix("REPRODUCED class=") {
            return Some(c.to_string());
        }
    }
    None
}
