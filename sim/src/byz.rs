//! The Byzantine peer: adversarial constructions no honest node produces.
//!  Z1 — a (msg, sig, pk) triple whose specification norm is an exactly chosen T
//!  Z2 — grammar-aware compressed strings (extreme unary runs, coefficient
//!       boundaries aligned to the end of the buffer, negative zero, padding)
//!  Z3 — keys with out-of-range fields / reserved patterns / wrong headers

use crate::reference::codec::{self, BitWriter, Params};
use crate::reference::field::{centred, modq, Ntt, Q};
use crate::reference::specverify::hash_to_point;
use crate::rng::Prng;

/// overwrite `width` bits at bit offset `at` (MSB-first) with `value`
pub fn set_bits(b: &mut [u8], at: usize, width: usize, value: u64) {
    for i in 0..width {
        let bit = (value >> (width - 1 - i)) & 1;
        let p = at + i;
        if p / 8 >= b.len() {
            return;
        }
        let mask = 1u8 << (7 - p % 8);
        if bit == 1 {
            b[p / 8] |= mask;
        } else {
            b[p / 8] &= !mask;
        }
    }
}

fn gaussish(rng: &mut Prng, sigma: f64) -> i64 {
    // sum of 4 uniforms, scaled: good enough for "small random integers"
    let u: f64 = (0..4).map(|_| rng.f64() - 0.5).sum::<f64>() * (12.0f64 / 4.0).sqrt();
    (u * sigma).round() as i64
}

// ---------------------------------------------------------------------------
// Z1
// ---------------------------------------------------------------------------

pub struct Triple {
    pub msg: Vec<u8>,
    pub sig: Vec<u8>,
    pub pk: Vec<u8>,
    pub norm: i64,
    pub s1_max: i64,
    pub note: String,
}

fn two_squares(r: i64, lim: i64) -> Option<(i64, i64)> {
    if r < 0 {
        return None;
    }
    let mut c = 0i64;
    while c * c <= r && c <= lim {
        let rem = r - c * c;
        let d = (rem as f64).sqrt().round() as i64;
        for dd in [d - 1, d, d + 1] {
            if dd >= 0 && dd <= lim && dd * dd == rem {
                return Some((c, dd));
            }
        }
        c += 1;
    }
    None
}

/// four integers in [-lim, lim] whose squares sum to r
fn four_squares(rng: &mut Prng, r: i64, lim: i64) -> Option<[i64; 4]> {
    if r < 0 || r > 4 * lim * lim {
        return None;
    }
    for _ in 0..400 {
        let amax = ((r as f64).sqrt() as i64).min(lim);
        let a = rng.range(0, amax as u64) as i64;
        let r1 = r - a * a;
        let bmax = ((r1 as f64).sqrt() as i64).min(lim);
        let b = rng.range(0, bmax as u64) as i64;
        let r2 = r1 - b * b;
        if r2 > 2 * lim * lim {
            continue;
        }
        if let Some((c, d)) = two_squares(r2, lim) {
            let mut v = [a, b, c, d];
            for x in v.iter_mut() {
                if rng.chance(1, 2) {
                    *x = -*x;
                }
            }
            return Some(v);
        }
    }
    None
}

/// Build a triple whose norm ||(s1, s2)||^2 is exactly `target`.
/// `edge`: put one coordinate of s1 at +-6144 (the ends of the centred range).
pub fn exact_norm_triple(p: Params, ntt: &Ntt, rng: &mut Prng, target: i64, edge: bool) -> Option<Triple> {
    exact_norm_triple_fill(p, ntt, rng, target, edge, None)
}

/// As above; with `fill = Some(slack)` the compressed s2 occupies exactly
/// 8L - slack bits of the L-byte budget (slack 0 = the stop bit of the last
/// coefficient is the last bit of the buffer), and the last coefficient gets a
/// non-empty unary part in half of the cases.
pub fn exact_norm_triple_fill(p: Params, ntt: &Ntt, rng: &mut Prng, target: i64, edge: bool, fill: Option<usize>) -> Option<Triple> {
    exact_norm_triple_shape(p, ntt, rng, target, edge, fill, 0)
}

/// `shape` 0: norm shared between s1 and s2; 1: s1 = 0, all of the norm in a
/// sparse s2 (four large coefficients); 2: s2 = +-x^j (norm 1), the rest in s1;
/// 3: like 0 with one s2 coefficient of magnitude 1024..=2047.
pub fn exact_norm_triple_shape(p: Params, ntt: &Ntt, rng: &mut Prng, target: i64, edge: bool, fill: Option<usize>, shape: u8) -> Option<Triple> {
    let n = p.n;
    let msg = crate::world::message(rng);
    let salt = rng.bytes(40);
    let mut sm = salt.clone();
    sm.extend_from_slice(&msg);
    let c = hash_to_point(&sm, n);
    for _attempt in 0..50 {
        // s2: small, invertible, compressible
        let frac = 0.15 + 0.5 * rng.f64(); // share of the norm carried by s2
        let mut budget = target;
        let mut s1 = vec![0i64; n];
        if edge {
            let pos = rng.usize_below(n - 4);
            s1[pos] = if rng.chance(1, 2) { 6144 } else { -6144 };
            budget -= 6144 * 6144;
        }
        if budget < 0 {
            // target below the edge square: only reachable without the edge
            return None;
        }
        let sigma2 = ((budget as f64) * frac / n as f64).sqrt().min(170.0);
        let mut s2: Vec<i64> = (0..n).map(|_| gaussish(rng, sigma2)).collect();
        if shape == 1 {
            // everything in s2: four squares summing to the budget at random positions
            s2 = vec![0i64; n];
            let four = match four_squares(rng, budget, 6144) {
                Some(f) => f,
                None => return None,
            };
            let mut pos: Vec<usize> = Vec::new();
            while pos.len() < 4 {
                let q = rng.usize_below(n);
                if !pos.contains(&q) {
                    pos.push(q);
                }
            }
            for k in 0..4 {
                s2[pos[k]] = four[k];
            }
        } else if shape == 2 {
            s2 = vec![0i64; n];
            s2[rng.usize_below(n)] = if rng.chance(1, 2) { 1 } else { -1 };
        } else if shape == 4 {
            // one s2 coefficient beyond the centred range of Z_q (6145..=12159, which Algorithm 18
            // still decodes), everything else tiny: the integer norm counts it in full
            s2 = (0..n).map(|_| gaussish(rng, 3.0)).collect();
            // the big coefficient is derived from the target so that a small rest remains for s1
            let m = (((budget - 30_000).max(0) as f64).sqrt() as i64).clamp(6145, 12159);
            s2[rng.usize_below(n)] = if rng.chance(1, 2) { m } else { -m };
        } else if shape == 3 {
            // like shape 0, with one coefficient in the upper half of what the reference
            // implementation still emits and accepts (1024..=2047)
            let m = 1024 + rng.below(1024) as i64;
            s2[rng.usize_below(n)] = if rng.chance(1, 2) { m } else { -m };
        }
        if let Some(slack) = fill {
            let want = (p.sig_len - 41) * 8 - slack;
            if rng.chance(1, 2) {
                let m = 128 + rng.below(256) as i64;
                s2[n - 1] = if rng.chance(1, 2) { m } else { -m };
            }
            let bits = |v: &[i64]| v.iter().map(|x| 9 + (x.unsigned_abs() >> 7) as usize).sum::<usize>();
            let mut guard = 0;
            while bits(&s2) != want && guard < 200000 {
                guard += 1;
                let i = rng.usize_below(n);
                let b = bits(&s2);
                if b < want {
                    s2[i] += if s2[i] >= 0 { 128 } else { -128 };
                } else if s2[i].abs() >= 128 {
                    s2[i] -= if s2[i] > 0 { 128 } else { -128 };
                }
            }
            if bits(&s2) != want {
                continue;
            }
        }
        let n2: i64 = s2.iter().map(|x| x * x).sum();
        let sig = match codec::sig_encode(p, &salt, &s2) {
            Some(s) => s,
            None => continue,
        };
        let s2_inv = match ntt.inv(&s2) {
            Some(i) => i,
            None => continue,
        };
        let rest = budget - n2;
        if rest < 0 {
            continue;
        }
        if shape == 1 && rest != 0 {
            continue;
        }
        // s1: n-4 free coordinates carrying slightly less than `rest`
        let free = (n - 4 - edge as usize) as f64;
        let sigma1 = ((rest as f64) * 0.97 / free).sqrt();
        let mut n1: i64 = 0;
        for i in 0..n - 4 {
            if s1[i] != 0 {
                continue;
            }
            let v = gaussish(rng, sigma1).clamp(-6144, 6144);
            s1[i] = v;
            n1 += v * v;
        }
        if shape == 1 {
            // s1 stays zero
            for v in s1.iter_mut() {
                *v = 0;
            }
            n1 = 0;
        }
        let r = rest - n1;
        let four = match four_squares(rng, r, 6144) {
            Some(f) => f,
            None => continue,
        };
        for k in 0..4 {
            s1[n - 4 + k] = four[k];
        }
        let norm: i64 = s1.iter().map(|x| x * x).sum::<i64>() + n2;
        if norm != target {
            continue;
        }
        // h = (c - s1) / s2
        let num: Vec<i64> = (0..n).map(|i| modq(c[i] - s1[i])).collect();
        let h = ntt.mul(&num, &s2_inv);
        // check by schoolbook arithmetic: c - s2*h == s1 (centred)
        let prod = crate::reference::field::schoolbook(&s2, &h);
        if !(0..n).all(|i| centred(c[i] - prod[i]) == s1[i]) {
            continue;
        }
        let pk = codec::pk_encode(p, &h);
        return Some(Triple {
            msg,
            sig,
            pk,
            norm,
            s1_max: s1.iter().map(|x| x.abs()).max().unwrap_or(0),
            note: format!("Z1 target={} edge={} |s2|^2={} fill={:?} shape={}", target, edge, n2, fill, shape),
        });
    }
    None
}

// ---------------------------------------------------------------------------
// Z2
// ---------------------------------------------------------------------------

#[derive(Clone, Debug)]
pub struct Crafted {
    pub body: Vec<u8>,
    pub style: &'static str,
    pub detail: String,
}

fn push_coef(w: &mut BitWriter, sign: bool, low: u64, k: usize) {
    w.push(sign);
    w.push_bits(low & 127, 7);
    for _ in 0..k {
        w.push(false);
    }
    w.push(true);
}

fn finish(mut w: BitWriter, nbytes: usize, fill: u8, rng: &mut Prng) -> Vec<u8> {
    while w.len() < nbytes * 8 {
        let b = match fill {
            0 => false,
            1 => true,
            _ => rng.chance(1, 2),
        };
        w.push(b);
    }
    w.bits.truncate(nbytes * 8);
    w.to_bytes()
}

/// Grammar-aware compressed body of exactly `nbytes` bytes for `n` coefficients.
pub fn craft_body(rng: &mut Prng, n: usize, nbytes: usize) -> Crafted {
    let total_bits = nbytes * 8;
    let style = rng.below(9);
    let small = |rng: &mut Prng| -> (bool, u64, usize) {
        // typical honest coefficient: |x| ~ 0..400
        let k = match rng.below(10) {
            0..=4 => 0,
            5..=7 => 1,
            8 => 2,
            _ => 3,
        };
        let low = rng.below(128);
        let sign = rng.chance(1, 2) && !(low == 0 && k == 0);
        (sign, low, k)
    };
    let mut w = BitWriter::default();
    match style {
        // a coefficient (index j, possibly the last) starts exactly at bit T near the end
        0 | 1 | 2 => {
            let j = match style {
                0 => n - 1,
                1 => n - 2,
                _ => n - 1 - rng.usize_below(n.min(40)),
            };
            let t = total_bits - rng.usize_below(13); // 8L-12 ..= 8L
            // j coefficients of 9 bits minimum, distribute the slack over unary runs (<= 94 each)
            let min_bits = 9 * j;
            let detail;
            if t >= min_bits {
                let mut slack = t - min_bits;
                let mut ks = vec![0usize; j];
                // a few large runs first, then spread
                let mut guard = 0;
                while slack > 0 && guard < 100000 {
                    guard += 1;
                    let i = rng.usize_below(j.max(1));
                    let span = if rng.chance(1, 8) { 94 } else { 3 };
                    let add = (1 + rng.usize_below(span)).min(slack).min(94 - ks[i]);
                    ks[i] += add;
                    slack -= add;
                }
                for &k in &ks {
                    let low = rng.below(128);
                    let sign = rng.chance(1, 2) && !(low == 0 && k == 0);
                    push_coef(&mut w, sign, low, k);
                }
                detail = format!("coefficient {} starts at bit {} of {}", j, w.len(), total_bits);
            } else {
                detail = "alignment target unreachable".to_string();
            }
            // then the remaining coefficients as small ones (they run off the end)
            for _ in j..n {
                let (s, l, k) = small(rng);
                push_coef(&mut w, s, l, k);
            }
            let fill = rng.below(3) as u8;
            return Crafted {
                body: finish(w, nbytes, fill, rng),
                style: "Z2-align",
                detail,
            };
        }
        // an extreme unary run somewhere (or at the last coefficient)
        3 | 4 => {
            let runs = [94usize, 95, 96, 127, 255, 256, 257, 511, 512, 513, 1023, 1024];
            let run = *rng.pick(&runs);
            let at = if style == 3 { n - 1 } else { rng.usize_below(n) };
            for i in 0..n {
                if i == at {
                    let low = if rng.chance(1, 2) { 0 } else { rng.below(128) };
                    push_coef(&mut w, rng.chance(1, 2), low, run);
                } else if rng.chance(9, 10) {
                    // keep the rest minimal so that long runs fit
                    push_coef(&mut w, false, rng.below(128).max(1), 0);
                } else {
                    let (s, l, k) = small(rng);
                    push_coef(&mut w, s, l, k);
                }
            }
            let fits = w.len() <= total_bits;
            return Crafted {
                body: finish(w, nbytes, 0, rng),
                style: "Z2-run",
                detail: format!("unary run {} at coefficient {} (fits: {})", run, at, fits),
            };
        }
        // negative zero at a random position, otherwise valid
        5 => {
            let at = rng.usize_below(n);
            for i in 0..n {
                if i == at {
                    push_coef(&mut w, true, 0, 0);
                } else {
                    let (s, l, _k) = small(rng);
                    push_coef(&mut w, s, l, 0);
                }
            }
            return Crafted {
                body: finish(w, nbytes, 0, rng),
                style: "Z2-negzero",
                detail: format!("negative zero at coefficient {}", at),
            };
        }
        // valid string, one padding bit set
        6 => {
            for _ in 0..n {
                let (s, l, _k) = small(rng);
                push_coef(&mut w, s, l, 0);
            }
            let used = w.len();
            let mut body = finish(w, nbytes, 0, rng);
            let detail;
            if used < total_bits {
                let pos = if rng.chance(1, 3) {
                    used
                } else if rng.chance(1, 2) {
                    total_bits - 1
                } else {
                    used + rng.usize_below(total_bits - used)
                };
                body[pos / 8] |= 1 << (7 - pos % 8);
                detail = format!("padding bit {} set (payload ends at {})", pos, used);
            } else {
                detail = "no padding".into();
            }
            return Crafted {
                body,
                style: "Z2-padding",
                detail,
            };
        }
        // exactly full: the last coefficient ends on the last bit (or one short / one over)
        7 => {
            let over = rng.below(3) as i64 - 1; // -1, 0, +1
            let want = (total_bits as i64 + over) as usize;
            let min_bits = 9 * n;
            let mut slack = want.saturating_sub(min_bits);
            let mut ks = vec![0usize; n];
            let mut guard = 0;
            while slack > 0 && guard < 100000 {
                guard += 1;
                let i = rng.usize_below(n);
                let add = (1 + rng.usize_below(3)).min(slack).min(94 - ks[i]);
                ks[i] += add;
                slack -= add;
            }
            for &k in &ks {
                push_coef(&mut w, rng.chance(1, 2), rng.below(127) + 1, k);
            }
            let l = w.len();
            return Crafted {
                body: finish(w, nbytes, 0, rng),
                style: "Z2-full",
                detail: format!("payload {} bits of {}", l, total_bits),
            };
        }
        // fully valid, honest-looking
        _ => {
            for _ in 0..n {
                let (s, l, k) = small(rng);
                push_coef(&mut w, s, l, k);
            }
            let l = w.len();
            return Crafted {
                body: finish(w, nbytes, 0, rng),
                style: "Z2-valid",
                detail: format!("payload {} bits of {}", l, total_bits),
            };
        }
    }
}

// ---------------------------------------------------------------------------
// Z3
// ---------------------------------------------------------------------------

pub struct CraftedKey {
    pub bytes: Vec<u8>,
    pub style: &'static str,
    pub detail: String,
}

/// Mutate a valid public-key encoding at the field level.
pub fn craft_pk(rng: &mut Prng, p: Params, valid: &[u8]) -> CraftedKey {
    let mut b = valid.to_vec();
    match rng.below(5) {
        0 | 1 => {
            // field in [q, 2^14)
            let i = rng.usize_below(p.n);
            let v = match rng.below(4) {
                0 => Q as u64,
                1 => (1 << 14) - 1,
                2 => Q as u64 + 1,
                _ => rng.range(Q as u64, (1 << 14) - 1),
            };
            set_bits(&mut b, 8 + 14 * i, 14, v);
            CraftedKey {
                bytes: b,
                style: "Z3-pk-range",
                detail: format!("h[{}] = {}", i, v),
            }
        }
        2 => {
            let i = rng.usize_below(p.n);
            let v = match rng.below(3) {
                0 => 0,
                1 => Q as u64 - 1,
                _ => rng.below(Q as u64),
            };
            set_bits(&mut b, 8 + 14 * i, 14, v);
            CraftedKey {
                bytes: b,
                style: "Z3-pk-inrange",
                detail: format!("h[{}] = {}", i, v),
            }
        }
        3 => {
            let h = match rng.below(4) {
                0 => p.logn ^ 3, // the other variant's logn
                1 => p.logn | 0x50,
                2 => p.logn | (1 << (4 + rng.below(4))),
                _ => rng.byte(),
            };
            b[0] = h;
            CraftedKey {
                bytes: b,
                style: "Z3-pk-header",
                detail: format!("header {:#04x}", h),
            }
        }
        _ => {
            // all fields maximal
            for i in 0..p.n {
                if rng.chance(1, 4) {
                    set_bits(&mut b, 8 + 14 * i, 14, (1 << 14) - 1);
                }
            }
            CraftedKey {
                bytes: b,
                style: "Z3-pk-range",
                detail: "many fields 16383".into(),
            }
        }
    }
}

/// Mutate a valid secret-key encoding at the field level.
pub fn craft_sk(rng: &mut Prng, p: Params, valid: &[u8]) -> CraftedKey {
    let mut b = valid.to_vec();
    let w = p.fg_bits;
    if rng.chance(1, 6) {
        // another basis of the same lattice: F' = F + k x^j f (and, implicitly, G' = G + k x^j g) still
        // satisfies f G' - g F' = q and fits the fields; it is a different, perfectly valid secret key,
        // and a decoder has to hand back exactly what the bytes say (no "normalisation")
        if let Ok(k) = crate::reference::codec::sk_decode(p, valid) {
            for _ in 0..8 {
                let j = rng.usize_below(p.n);
                let sgn: i64 = if rng.chance(1, 2) { 1 } else { -1 };
                let mut cf = k.cf.clone();
                for i in 0..p.n {
                    // (x^j f)_{i+j} = f_i, negated on wrap-around
                    let t = i + j;
                    let (pos, neg) = if t >= p.n { (t - p.n, true) } else { (t, false) };
                    cf[pos] += if neg { -sgn * k.f[i] } else { sgn * k.f[i] };
                }
                if cf.iter().all(|c| c.abs() <= 127) {
                    let k2 = crate::reference::codec::SkFields { f: k.f.clone(), g: k.g.clone(), cf };
                    if let Some(bytes) = crate::reference::codec::sk_encode(p, &k2) {
                        return CraftedKey { bytes, style: "Z3-sk-other-basis", detail: format!("F + ({}) x^{} f", sgn, j) };
                    }
                }
            }
        }
    }
    if rng.chance(1, 8) {
        // many reserved fields at once: a decoder that counts them (instead of stopping at the first)
        // meets the limits of its counter at 255 / 256 / 257 and at 65535 / 65536 bits
        let count = *rng.pick(&[2usize, 255, 256, 257, 511, 512, 513, 768]);
        let count = count.min(p.n);
        let which = rng.below(3);
        let start = rng.usize_below(p.n - count + 1);
        for i in start..start + count {
            let (off, width) = match which {
                0 => (8 + w * i, w),
                1 => (8 + w * p.n + w * i, w),
                _ => (8 + 2 * w * p.n + 8 * i, 8),
            };
            set_bits(&mut b, off, width, 1 << (width - 1));
        }
        return CraftedKey { bytes: b, style: "Z3-sk-reserved-many", detail: format!("poly {}: {} reserved fields from coefficient {}", which, count, start) };
    }
    match rng.below(4) {
        0 | 1 => {
            // reserved pattern 100..0 in a random field of f, g or F
            let which = rng.below(3);
            let i = rng.usize_below(p.n);
            let (off, width) = match which {
                0 => (8 + w * i, w),
                1 => (8 + w * p.n + w * i, w),
                _ => (8 + 2 * w * p.n + 8 * i, 8),
            };
            set_bits(&mut b, off, width, 1 << (width - 1));
            CraftedKey {
                bytes: b,
                style: "Z3-sk-reserved",
                detail: format!("poly {} coefficient {} = -2^{}", which, i, width - 1),
            }
        }
        2 => {
            let h = match rng.below(4) {
                0 => 0x50 | (p.logn ^ 3),
                1 => p.logn,
                2 => (0x50 | p.logn) ^ (1 << rng.below(8)),
                _ => rng.byte(),
            };
            b[0] = h;
            CraftedKey {
                bytes: b,
                style: "Z3-sk-header",
                detail: format!("header {:#04x}", h),
            }
        }
        _ => {
            // extreme but legal values: +-(2^(w-1) - 1)
            let i = rng.usize_below(p.n);
            let v = if rng.chance(1, 2) { (1u64 << (w - 1)) - 1 } else { (1u64 << (w - 1)) + 1 };
            set_bits(&mut b, 8 + w * i, w, v);
            CraftedKey {
                bytes: b,
                style: "Z3-sk-extreme",
                detail: format!("f[{}] raw field {}", i, v),
            }
        }
    }
}

// ---------------------------------------------------------------------------
// Z4: salt grinding. The salt is attacker-controlled signature bytes; a
// Byzantine prover can grind it so that the hash-to-point stream of
// (salt || msg) is extreme: many rejected 16-bit samples before n coefficients
// are collected.
// ---------------------------------------------------------------------------

/// number of rejected samples HashToPoint sees before it has n coefficients
pub fn hash_rejections(salt_and_msg: &[u8], n: usize) -> usize {
    use sha3::digest::{ExtendableOutput, Update, XofReader};
    let mut h = sha3::Shake256::default();
    h.update(salt_and_msg);
    let mut r = h.finalize_xof();
    let mut got = 0;
    let mut rej = 0;
    let mut buf = [0u8; 2];
    while got < n {
        r.read(&mut buf);
        let t = ((buf[0] as u32) << 8) | buf[1] as u32;
        if t < 5 * Q as u32 {
            got += 1;
        } else {
            rej += 1;
        }
    }
    rej
}

pub fn grind_salt(rng: &mut Prng, msg: &[u8], n: usize, trials: usize) -> (Vec<u8>, usize) {
    let mut best = (rng.bytes(40), 0usize);
    let mut sm = vec![0u8; 40 + msg.len()];
    sm[40..].copy_from_slice(msg);
    let base = rng.bytes(40);
    for t in 0..trials {
        sm[..40].copy_from_slice(&base);
        sm[..8].copy_from_slice(&(t as u64).wrapping_mul(0x9E3779B97F4A7C15).to_le_bytes());
        let r = hash_rejections(&sm, n);
        if r >= best.1 {
            best = (sm[..40].to_vec(), r);
        }
    }
    best
}

// ---------------------------------------------------------------------------
// Z5: chosen s1. The public key is attacker-chosen: with s2 = +-x^j and
// h = (c - s1)/s2 the verifier's s1 = c - s2*h is any vector in [-6144, 6144]^n
// the attacker likes - all at the ends of the centred range, blocks of extremes,
// alternating signs ... (the specification rejects these by norm; the verifier
// must do so without unwinding).
// ---------------------------------------------------------------------------

pub fn chosen_s1_triple(rng: &mut Prng, p: Params) -> Triple {
    let n = p.n;
    let msg = crate::world::message(rng);
    let salt = rng.bytes(40);
    let mut sm = salt.clone();
    sm.extend_from_slice(&msg);
    let c = hash_to_point(&sm, n);
    let pattern = rng.below(7);
    let s1: Vec<i64> = (0..n)
        .map(|i| match pattern {
            0 => 6144,
            1 => -6144,
            2 => if i % 2 == 0 { 6144 } else { -6144 },
            3 => if (i / 64) % 2 == 0 { 6144 } else { 0 },
            4 => if rng.chance(1, 2) { 6144 } else { -6144 },
            5 => 6144 - rng.below(3) as i64,
            _ => rng.below(12289) as i64 - 6144,
        })
        .collect();
    // s2 = +-x^j: invertible, s2^-1 = -+x^(n-j)
    let j = rng.usize_below(n);
    let sign: i64 = if rng.chance(1, 2) { 1 } else { -1 };
    let mut s2 = vec![0i64; n];
    s2[j] = sign;
    // h = (c - s1) * s2^-1 ; multiplying by x^(n-j) * (-sign) in Z_q[x]/(x^n+1)
    let num: Vec<i64> = (0..n).map(|i| modq(c[i] - s1[i])).collect();
    let mut h = vec![0i64; n];
    for i in 0..n {
        // x^i * x^(n-j) = -x^(i-j) (i >= j) or x^(n+i-j)... handle by index arithmetic
        let k = i + n - j;
        let (idx, neg) = if k >= n { (k - n, true) } else { (k, false) };
        let mut v = num[i] * (-sign);
        if neg {
            v = -v;
        }
        h[idx] = modq(h[idx] + v);
    }
    let sig = codec::sig_encode(p, &salt, &s2).expect("a monomial always fits");
    let pk = codec::pk_encode(p, &h);
    let norm: i64 = s1.iter().map(|x| x * x).sum::<i64>() + 1;
    Triple { msg, sig, pk, norm, s1_max: 6144, note: format!("Z5 chosen s1, pattern {}, s2 = {}x^{}", pattern, sign, j) }
}

// ---------------------------------------------------------------------------
// Z6: turning a HashToPoint disagreement into a verdict disagreement. Given a
// (salt, msg) on which the verifier's hash point differs from the reference's at
// the index set D, build a triple with s2 = 1, s1 = 0 on D and norm exactly
// floor(beta^2): the specification accepts it; a verifier that computes a
// different c sees a non-zero s1 on D, a norm above the bound, and rejects.
// ---------------------------------------------------------------------------

pub fn flip_triple(p: Params, rng: &mut Prng, salt: &[u8], msg: &[u8], zero_idx: &[usize]) -> Option<Triple> {
    let n = p.n;
    let mut sm = salt.to_vec();
    sm.extend_from_slice(msg);
    let c = hash_to_point(&sm, n);
    let free: Vec<usize> = (0..n).filter(|i| !zero_idx.contains(i)).collect();
    if free.len() < 8 {
        return None;
    }
    for _ in 0..50 {
        let budget = p.bound - 1; // s2 = 1 contributes 1
        let mut s1 = vec![0i64; n];
        let sigma1 = ((budget as f64) * 0.97 / (free.len() - 4) as f64).sqrt();
        let mut n1 = 0i64;
        for &i in &free[..free.len() - 4] {
            let v = gaussish(rng, sigma1).clamp(-6144, 6144);
            s1[i] = v;
            n1 += v * v;
        }
        let four = match four_squares(rng, budget - n1, 6144) {
            Some(f) => f,
            None => continue,
        };
        for k in 0..4 {
            s1[free[free.len() - 4 + k]] = four[k];
        }
        let mut s2 = vec![0i64; n];
        s2[0] = 1;
        let h: Vec<i64> = (0..n).map(|i| modq(c[i] - s1[i])).collect();
        let sig = codec::sig_encode(p, salt, &s2)?;
        let pk = codec::pk_encode(p, &h);
        return Some(Triple { msg: msg.to_vec(), sig, pk, norm: p.bound, s1_max: s1.iter().map(|x| x.abs()).max().unwrap_or(0), note: format!("Z6 flip triple: s1 = 0 on {} indices where the hash points differ", zero_idx.len()) });
    }
    None
}
