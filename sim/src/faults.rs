//! Fault catalogue for bytes in transit (channel) and at rest (disk).
//! A `Fault` is fully literal (positions, fill bytes), so a fault trace is
//! replayable and can be minimised by dropping entries.

use crate::rng::Prng;
use serde_json::{json, Value};

#[derive(Clone, Debug, PartialEq)]
pub enum Fault {
    /// N4: flip these bit positions (bit index from the MSB of byte 0)
    Flip { bits: Vec<usize> },
    /// N5: overwrite [at, at+data.len()) with literal data
    Overwrite { at: usize, data: Vec<u8>, fill: &'static str },
    /// N6: truncate to this length
    Truncate { len: usize },
    /// N6: append these bytes
    Extend { data: Vec<u8> },
    /// N7: keep the first `cut` bytes, continue with `other[cut..]`
    Splice { cut: usize, other: Vec<u8> },
    /// D1: torn write — the first `cut` bytes are new, the rest is what was on
    /// the disk before (`old`, possibly zeros)
    Torn { cut: usize, old: Vec<u8> },
    /// insert a block (duplicated or random) at `at`, dropping the tail to keep the length
    Insert { at: usize, data: Vec<u8> },
}

impl Fault {
    pub fn kind(&self) -> &'static str {
        match self {
            Fault::Flip { bits } => {
                if bits.iter().all(|&b| b < 8) {
                    "N4h"
                } else {
                    "N4"
                }
            }
            Fault::Overwrite { fill, .. } => {
                if *fill == "body" {
                    "N5body"
                } else {
                    "N5"
                }
            }
            Fault::Truncate { .. } => "N6t",
            Fault::Extend { .. } => "N6e",
            Fault::Splice { .. } => "N7",
            Fault::Torn { .. } => "D1",
            Fault::Insert { .. } => "N5i",
        }
    }

    pub fn apply(&self, b: &mut Vec<u8>) {
        match self {
            Fault::Flip { bits } => {
                for &i in bits {
                    if i / 8 < b.len() {
                        b[i / 8] ^= 1 << (7 - i % 8);
                    }
                }
            }
            Fault::Overwrite { at, data, .. } => {
                for (k, &d) in data.iter().enumerate() {
                    if at + k < b.len() {
                        b[at + k] = d;
                    }
                }
            }
            Fault::Truncate { len } => b.truncate(*len),
            Fault::Extend { data } => b.extend_from_slice(data),
            Fault::Splice { cut, other } => {
                let c = (*cut).min(b.len());
                b.truncate(c);
                if c < other.len() {
                    b.extend_from_slice(&other[c..]);
                }
            }
            Fault::Torn { cut, old } => {
                let c = (*cut).min(b.len());
                let len = b.len();
                for i in c..len {
                    b[i] = if i < old.len() { old[i] } else { 0 };
                }
            }
            Fault::Insert { at, data } => {
                let len = b.len();
                let a = (*at).min(len);
                let tail: Vec<u8> = b[a..].to_vec();
                b.truncate(a);
                b.extend_from_slice(data);
                b.extend_from_slice(&tail);
                b.truncate(len);
            }
        }
    }

    pub fn to_json(&self) -> Value {
        use crate::rng::hex;
        match self {
            Fault::Flip { bits } => json!({"kind": self.kind(), "bits": bits}),
            Fault::Overwrite { at, data, fill } => {
                json!({"kind": self.kind(), "at": at, "len": data.len(), "fill": fill,
                       "data_hex": if data.len() <= 32 { hex(data) } else { format!("{}…", hex(&data[..32])) }})
            }
            Fault::Truncate { len } => json!({"kind": self.kind(), "len": len}),
            Fault::Extend { data } => json!({"kind": self.kind(), "extra": data.len()}),
            Fault::Splice { cut, other } => json!({"kind": self.kind(), "cut": cut, "other_len": other.len()}),
            Fault::Torn { cut, old } => json!({"kind": self.kind(), "cut": cut, "old_len": old.len()}),
            Fault::Insert { at, data } => json!({"kind": self.kind(), "at": at, "len": data.len()}),
        }
    }
}

/// Which kinds are enabled in a run (swarm testing: a random subset per run).
#[derive(Clone, Debug)]
pub struct FaultMix {
    pub flip: bool,
    pub header_flip: bool,
    pub overwrite: bool,
    pub body: bool,
    pub truncate: bool,
    pub extend: bool,
    pub splice: bool,
    pub torn: bool,
    pub insert: bool,
    /// upper bound on faults per delivery
    pub max_faults: usize,
}

impl FaultMix {
    pub fn all() -> Self {
        FaultMix {
            flip: true,
            header_flip: true,
            overwrite: true,
            body: true,
            truncate: true,
            extend: true,
            splice: true,
            torn: true,
            insert: true,
            max_faults: 4,
        }
    }
    pub fn swarm(rng: &mut Prng) -> Self {
        let mut m = FaultMix {
            flip: rng.chance(2, 3),
            header_flip: rng.chance(1, 2),
            overwrite: rng.chance(2, 3),
            body: rng.chance(1, 2),
            truncate: rng.chance(1, 2),
            extend: rng.chance(1, 3),
            splice: rng.chance(1, 2),
            torn: rng.chance(1, 2),
            insert: rng.chance(1, 3),
            max_faults: 1 + rng.usize_below(4),
        };
        if !(m.flip || m.header_flip || m.overwrite || m.body || m.truncate || m.extend || m.splice || m.torn || m.insert) {
            m.flip = true;
        }
        m
    }
    fn enabled(&self) -> Vec<u8> {
        let mut v = Vec::new();
        if self.flip {
            v.push(0)
        }
        if self.header_flip {
            v.push(1)
        }
        if self.overwrite {
            v.push(2)
        }
        if self.body {
            v.push(3)
        }
        if self.truncate {
            v.push(4)
        }
        if self.extend {
            v.push(5)
        }
        if self.splice {
            v.push(6)
        }
        if self.torn {
            v.push(7)
        }
        if self.insert {
            v.push(8)
        }
        v
    }

    /// Draw one fault for a string of `len` bytes whose payload starts at byte
    /// `body_from` (1 for keys, 41 for signatures). `others` are other valid
    /// encodings of the same type (for splices and torn writes).
    pub fn draw(&self, rng: &mut Prng, len: usize, body_from: usize, others: &[&[u8]]) -> Fault {
        let mut kinds = self.enabled();
        if kinds.is_empty() {
            kinds.push(0);
        }
        let k = *rng.pick(&kinds);
        let fill = |rng: &mut Prng, n: usize| -> (Vec<u8>, &'static str) {
            match rng.below(4) {
                0 => (vec![0u8; n], "00"),
                1 => (vec![0xffu8; n], "ff"),
                _ => (rng.bytes(n), "rand"),
            }
        };
        match k {
            0 => {
                let nb = 1 + rng.usize_below(8);
                Fault::Flip {
                    bits: (0..nb).map(|_| rng.usize_below(len.max(1) * 8)).collect(),
                }
            }
            1 => Fault::Flip {
                bits: vec![rng.usize_below(8)],
            },
            2 => {
                let at = rng.usize_below(len.max(1));
                let span = if rng.chance(1, 4) { 64 } else { 8 };
                let n = 1 + rng.usize_below(span);
                let (data, f) = fill(rng, n);
                Fault::Overwrite { at, data, fill: f }
            }
            3 => {
                let from = body_from.min(len);
                Fault::Overwrite {
                    at: from,
                    data: rng.bytes(len - from),
                    fill: "body",
                }
            }
            4 => Fault::Truncate {
                len: if rng.chance(1, 3) {
                    // near the ends
                    if rng.chance(1, 2) {
                        rng.usize_below(4.min(len + 1))
                    } else {
                        len.saturating_sub(1 + rng.usize_below(3))
                    }
                } else {
                    rng.usize_below(len + 1)
                },
            },
            5 => {
                // mostly a few bytes; sometimes hundreds; sometimes a length at which a narrow
                // integer holding the byte or bit count wraps (2^8, 2^13 bytes = 2^16 bits, 2^16)
                let n = match rng.below(8) {
                    0 | 1 => 1 + rng.usize_below(700),
                    2 => *rng.pick(&[255usize, 256, 257, 4096, 8191, 8192, 8193, 16384, 65535, 65536]),
                    _ => 1 + rng.usize_below(4),
                };
                Fault::Extend { data: fill(rng, n).0 }
            }
            6 | 7 => {
                let other: Vec<u8> = if !others.is_empty() && rng.chance(3, 4) {
                    rng.pick(others).to_vec()
                } else {
                    vec![0u8; len]
                };
                let cut = rng.usize_below(len + 1);
                if k == 6 {
                    Fault::Splice { cut, other }
                } else {
                    Fault::Torn { cut, old: other }
                }
            }
            _ => {
                let at = rng.usize_below(len.max(1));
                let n = 1 + rng.usize_below(16);
                Fault::Insert { at, data: fill(rng, n).0 }
            }
        }
    }
}

/// Revert-based minimisation of a damaged byte string: `good` and `bad` have
/// the same length; find a `bad'` between them (fewer differing bytes) that
/// still satisfies `still_fails`.
pub fn minimise_damage(good: &[u8], bad: &[u8], mut still_fails: impl FnMut(&[u8]) -> bool) -> Vec<u8> {
    if good.len() != bad.len() {
        return bad.to_vec();
    }
    let mut cur = bad.to_vec();
    let mut diff: Vec<usize> = (0..good.len()).filter(|&i| good[i] != cur[i]).collect();
    let mut chunk = (diff.len() / 2).max(1);
    let mut budget = 4000;
    while !diff.is_empty() && budget > 0 {
        let mut progress = false;
        let mut i = 0;
        while i < diff.len() && budget > 0 {
            let end = (i + chunk).min(diff.len());
            let mut trial = cur.clone();
            for &p in &diff[i..end] {
                trial[p] = good[p];
            }
            budget -= 1;
            if still_fails(&trial) {
                cur = trial;
                diff.drain(i..end);
                progress = true;
            } else {
                i = end;
            }
        }
        if chunk == 1 && !progress {
            break;
        }
        if !progress || chunk > 1 {
            chunk = (chunk / 2).max(1);
        }
    }
    cur
}
