//! Simulator-owned clock. falcon-rust has no timers, deadlines or clocks - and must not grow one whose
//! reading changes a result. The harness binary defines `clock_gettime` itself (the definition in the
//! executable takes precedence over libc's for everything linked into it, std's `Instant` and
//! `SystemTime` included), passes the call on to the kernel, and - only on threads that have switched
//! clock faults on, only while they execute the code under test - lets the reported time jump forward:
//! every look at the clock may find that a minute or an hour has passed (a stopped and resumed process, a
//! suspended VM, a debugger). Code that never looks at a clock never notices.

use std::cell::Cell;

thread_local! {
    static ACTIVE: Cell<bool> = const { Cell::new(false) };
    static OFFSET_NS: Cell<i64> = const { Cell::new(0) };
    static STATE: Cell<u64> = const { Cell::new(0x9E3779B97F4A7C15) };
    static READS: Cell<u64> = const { Cell::new(0) };
    static JUMPS: Cell<u64> = const { Cell::new(0) };
}

/// Switch clock faults on for the current thread until the guard is dropped.
pub struct ClockFaults {
    was: bool,
}

pub fn enable(seed: u64) -> ClockFaults {
    STATE.with(|s| s.set(seed | 1));
    let was = ACTIVE.with(|a| a.replace(true));
    ClockFaults { was }
}

impl Drop for ClockFaults {
    fn drop(&mut self) {
        let _ = ACTIVE.try_with(|a| a.set(self.was));
    }
}

/// (clock reads seen while faults were on, jumps injected) on this thread so far
pub fn counters() -> (u64, u64) {
    (READS.with(|r| r.get()), JUMPS.with(|j| j.get()))
}

/// # Safety
/// Same contract as libc's `clock_gettime`.
#[no_mangle]
pub unsafe extern "C" fn clock_gettime(clk: libc::clockid_t, ts: *mut libc::timespec) -> libc::c_int {
    let r = libc::syscall(libc::SYS_clock_gettime, clk as libc::c_long, ts) as libc::c_int;
    if r != 0 || ts.is_null() {
        return r;
    }
    let active = ACTIVE.try_with(|a| a.get()).unwrap_or(false);
    if !active {
        return r;
    }
    let _ = READS.try_with(|c| c.set(c.get() + 1));
    // one look in four finds that time has jumped: 61 s, 10 min or 2 h
    let x = STATE
        .try_with(|s| {
            let mut v = s.get();
            v ^= v << 13;
            v ^= v >> 7;
            v ^= v << 17;
            s.set(v);
            v
        })
        .unwrap_or(0);
    if x & 3 == 0 {
        let jump_s: i64 = [61, 600, 7200][((x >> 8) % 3) as usize];
        let _ = OFFSET_NS.try_with(|o| o.set(o.get() + jump_s * 1_000_000_000));
        let _ = JUMPS.try_with(|c| c.set(c.get() + 1));
    }
    let off = OFFSET_NS.try_with(|o| o.get()).unwrap_or(0);
    let total = (*ts).tv_nsec as i64 + off % 1_000_000_000;
    (*ts).tv_sec += (off / 1_000_000_000 + total / 1_000_000_000) as libc::time_t;
    (*ts).tv_nsec = (total % 1_000_000_000) as libc::c_long;
    r
}
