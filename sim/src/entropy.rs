//! Simulator-owned entropy. `SimStream` is what the code under test sees behind
//! the ambient-entropy seam (hook H1) or any `&mut dyn RngCore` seam. It emits
//! bytes derived from the run seed, in one of several modes ("entropy faults"),
//! is a yield point of the baton scheduler on every draw, and enforces the
//! logical step bound of the operation it serves.
//!
//! `SimObserver` is the matching hook observer: it counts probes, drives the
//! buggify sites, tracks where inside `sampler_z` the consumer currently is (so
//! that faults can be aimed at the comparison that is about to happen) and is
//! the yield point for draws from key generation's seed-expanded stream.

use crate::guard::NoProgress;
use crate::reference::sampler as rs;
use crate::rng::Prng;
use crate::sched::Handle;
use falcon_rust::verif_hooks::Observer;
use rand::RngCore;
use std::cell::RefCell;
use std::collections::{BTreeMap, BTreeSet};
use std::rc::Rc;

#[derive(Clone, Debug, PartialEq)]
pub enum Mode {
    /// E1: healthy uniform bytes
    Uniform,
    /// E2: at the `call`-th sampler call (0-based), iteration `iter`, make the
    /// Bernoulli bytes tie with the comparand on `depth` bytes, then deviate by
    /// `dir` (+1/-1; ignored if depth == 7).
    TieAt { call: u64, iter: u64, depth: u8, dir: i8 },
    /// E3: at the `call`-th sampler call, first iteration, the 9 base bytes
    /// encode RCDT[entry] + delta (entry 18 = 0, entry 19 = 2^72-1).
    TableAt { call: u64, entry: u8, delta: i8 },
    /// E6: the Bernoulli bytes of the first `rounds` iterations of the `call`-th sampler call are all
    /// 0xff (the comparison can only come out "reject"); then uniform
    RejectRun { call: u64, rounds: u64 },
    /// E4: for the first `window` sampler calls the first base byte is 0, the
    /// sign bit is stuck at `sign` and the Bernoulli bytes are 0; then uniform.
    BiasedWindow { window: u64, sign: u8 },
    /// E7: the first `bytes` bytes of output (however they are requested) are those of the stream
    /// `prefix`, whatever this stream's own seed; then this stream's own uniform bytes. Two such
    /// streams model generator outputs that agree on their first 32 / 64 bits only.
    SharedPrefix { prefix: u64, bytes: u8 },
}

impl Mode {
    pub fn to_json(&self) -> serde_json::Value {
        use serde_json::json;
        match self {
            Mode::Uniform => json!({"kind": "E1"}),
            Mode::TieAt { call, iter, depth, dir } => json!({"kind": "E2", "call": call, "iter": iter, "depth": depth, "dir": dir}),
            Mode::TableAt { call, entry, delta } => json!({"kind": "E3", "call": call, "entry": entry, "delta": delta}),
            Mode::BiasedWindow { window, sign } => json!({"kind": "E4", "window": window, "sign": sign}),
            Mode::RejectRun { call, rounds } => json!({"kind": "E6", "call": call, "rounds": rounds}),
            Mode::SharedPrefix { prefix, bytes } => json!({"kind": "E7", "prefix": prefix, "bytes": bytes}),
        }
    }
    pub fn from_json(v: &serde_json::Value) -> Option<Mode> {
        let u = |k: &str| v.get(k).and_then(|x| x.as_u64());
        let i = |k: &str| v.get(k).and_then(|x| x.as_i64());
        Some(match v.get("kind")?.as_str()? {
            "E1" => Mode::Uniform,
            "E2" => Mode::TieAt { call: u("call")?, iter: u("iter")?, depth: u("depth")? as u8, dir: i("dir")? as i8 },
            "E3" => Mode::TableAt { call: u("call")?, entry: u("entry")? as u8, delta: i("delta")? as i8 },
            "E4" => Mode::BiasedWindow { window: u("window")?, sign: u("sign")? as u8 },
            "E6" => Mode::RejectRun { call: u("call")?, rounds: u("rounds")? },
            "E7" => Mode::SharedPrefix { prefix: u("prefix")?, bytes: u("bytes")? as u8 },
            _ => return None,
        })
    }
    pub fn kind(&self) -> &'static str {
        match self {
            Mode::Uniform => "E1",
            Mode::TieAt { .. } => "E2",
            Mode::TableAt { .. } => "E3",
            Mode::BiasedWindow { .. } => "E4",
            Mode::RejectRun { .. } => "E6",
            Mode::SharedPrefix { .. } => "E7",
        }
    }
}

/// State shared (per simulated thread) between the stream and the observer.
#[derive(Default)]
pub struct Shared {
    pub cur_params: Option<(f64, f64, f64)>,
    /// number of sampler calls seen since the last `begin_op`
    pub sampler_calls: u64,
    /// byte position inside the current sampler call
    pub pos_in_call: u64,
    pub probes: BTreeMap<&'static str, u64>,
    /// buggify: site -> set of visit indices (per operation) at which to fire
    pub fire_at: BTreeMap<&'static str, BTreeSet<u64>>,
    pub visits: BTreeMap<&'static str, u64>,
    pub fired: BTreeMap<&'static str, u64>,
    pub sigma_out_of_range: u64,
    pub sigma_min_seen: f64,
    pub sigma_max_seen: f64,
    pub seed_stream_draws: u64,
    pub seed_stream_cap: u64,
    /// entropy faults that actually landed (kind -> count)
    pub landed: BTreeMap<&'static str, u64>,
    pub max_tie_depth: usize,
    /// expected number of sampler calls of the operation (2n for sign), for phases
    pub expected_calls: u64,
    /// ambient draws observed while inside key generation (probe, expected 0)
    pub ambient_draws_total: u64,
}

impl Shared {
    pub fn new() -> Rc<RefCell<Shared>> {
        Rc::new(RefCell::new(Shared {
            sigma_min_seen: f64::INFINITY,
            sigma_max_seen: 0.0,
            seed_stream_cap: u64::MAX,
            ..Default::default()
        }))
    }
    pub fn begin_op(&mut self) {
        self.sampler_calls = 0;
        self.pos_in_call = 0;
        self.cur_params = None;
        self.visits.clear();
        self.fire_at.clear();
        self.seed_stream_draws = 0;
    }
    pub fn probe_count(&self, site: &str) -> u64 {
        self.probes.iter().filter(|(k, _)| **k == site).map(|(_, v)| *v).sum()
    }
}

pub struct SimObserver {
    pub shared: Rc<RefCell<Shared>>,
    pub handle: Option<Rc<Handle>>,
}

impl Observer for SimObserver {
    fn buggify(&mut self, site: &'static str) -> bool {
        let mut s = self.shared.borrow_mut();
        let v = *s.visits.get(site).unwrap_or(&0);
        s.visits.insert(site, v + 1);
        let fire = s.fire_at.get(site).map(|set| set.contains(&v)).unwrap_or(false);
        if fire {
            *s.fired.entry(site).or_insert(0) += 1;
        }
        fire
    }
    fn probe(&mut self, site: &'static str) {
        let mut s = self.shared.borrow_mut();
        *s.probes.entry(site).or_insert(0) += 1;
    }
    fn sampler_entry(&mut self, mu: f64, sigma: f64, sigma_min: f64) {
        let mut s = self.shared.borrow_mut();
        if s.cur_params.is_some() {
            s.sampler_calls += 1;
        }
        s.cur_params = Some((mu, sigma, sigma_min));
        s.pos_in_call = 0;
        if !(sigma >= sigma_min && sigma <= rs::SIGMA_MAX) {
            s.sigma_out_of_range += 1;
        }
        if sigma < s.sigma_min_seen {
            s.sigma_min_seen = sigma;
        }
        if sigma > s.sigma_max_seen {
            s.sigma_max_seen = sigma;
        }
    }
    fn seed_stream_draw(&mut self, _bytes: usize) {
        let over = {
            let mut s = self.shared.borrow_mut();
            s.seed_stream_draws += 1;
            s.seed_stream_draws > s.seed_stream_cap
        };
        if over {
            let d = self.shared.borrow().seed_stream_draws;
            std::panic::panic_any(NoProgress {
                draws: d,
                what: "keygen exceeded its draw bound",
            });
        }
        if let Some(h) = &self.handle {
            h.set_phase(20);
            h.yield_point();
        }
    }
}

pub struct SimStream {
    bytes: Prng,
    junk: Prng,
    pub mode: Mode,
    pub shared: Rc<RefCell<Shared>>,
    pub handle: Option<Rc<Handle>>,
    pub draws: u64,
    pub cap: u64,
    pub record: Option<Vec<u8>>,
    /// bytes of the current iteration emitted so far (for aiming E2)
    iter_buf: Vec<u8>,
    pending_tie: Option<(u64, u8, i8)>,
    pub what: &'static str,
    /// E7: the stream's own generators, swapped in once `prefix_left` bytes have been emitted
    own: Option<(Prng, Prng)>,
    prefix_left: i64,
}

impl SimStream {
    pub fn new(seed: u64, mode: Mode, shared: Rc<RefCell<Shared>>, handle: Option<Rc<Handle>>, cap: u64) -> Self {
        let mut p = Prng::new(seed);
        let mut junk = p.fork(0x6a756e6b);
        let mut own = None;
        let mut prefix_left = 0i64;
        if let Mode::SharedPrefix { prefix, bytes } = mode {
            let mut q = Prng::new(prefix);
            let qj = q.fork(0x6a756e6b);
            own = Some((std::mem::replace(&mut p, q), std::mem::replace(&mut junk, qj)));
            prefix_left = bytes as i64;
        }
        SimStream {
            own,
            prefix_left,
            bytes: p,
            junk,
            mode,
            shared,
            handle,
            draws: 0,
            cap,
            record: None,
            iter_buf: Vec::with_capacity(17),
            pending_tie: None,
            what: "sign exceeded its draw bound",
        }
    }

    /// E7 accounting: `n` bytes of output are about to be produced
    fn emitted(&mut self, n: i64) {
        if self.own.is_some() {
            if self.prefix_left <= 0 {
                if let Some((b, j)) = self.own.take() {
                    self.bytes = b;
                    self.junk = j;
                    *self.shared.borrow_mut().landed.entry("E7").or_insert(0) += 1;
                }
            }
            self.prefix_left -= n;
        }
    }

    fn tick(&mut self, phase: u8) {
        self.draws += 1;
        if self.draws > self.cap {
            std::panic::panic_any(NoProgress {
                draws: self.draws,
                what: self.what,
            });
        }
        if let Some(h) = &self.handle {
            h.set_phase(phase);
            h.yield_point();
        }
    }

    /// one byte requested through `next_u32`, i.e. a sampler byte
    fn sampler_byte(&mut self) -> u8 {
        let (call, pos, params, expected) = {
            let mut s = self.shared.borrow_mut();
            let r = (s.sampler_calls, s.pos_in_call, s.cur_params, s.expected_calls);
            s.pos_in_call += 1;
            r
        };
        let phase = if expected > 0 {
            3 + ((call * 10 / expected).min(9)) as u8
        } else {
            3
        };
        self.emitted(4);
        self.tick(phase);
        let iter = pos / 17;
        let off = (pos % 17) as usize;
        if off == 0 {
            self.iter_buf.clear();
            self.pending_tie = None;
        }
        let uniform = self.bytes.byte();
        let mut out = uniform;
        match self.mode {
            Mode::Uniform | Mode::SharedPrefix { .. } => {}
            Mode::BiasedWindow { window, sign } => {
                if call < window {
                    out = match off {
                        0 => 0,
                        1..=8 => uniform,
                        9 => (uniform & 0xfe) | (sign & 1),
                        _ => 0,
                    };
                    if off == 16 {
                        *self.shared.borrow_mut().landed.entry("E4").or_insert(0) += 1;
                    }
                }
            }
            Mode::RejectRun { call: c, rounds } => {
                if call == c && iter < rounds && off >= 10 {
                    out = 0xff;
                    if off == 16 && iter + 1 == rounds {
                        *self.shared.borrow_mut().landed.entry("E6").or_insert(0) += 1;
                    }
                }
            }
            Mode::TableAt { call: c, entry, delta } => {
                if call == c && iter == 0 && off < 9 {
                    let t = rs::rcdt();
                    let base: i128 = match entry {
                        0..=17 => t[entry as usize] as i128,
                        18 => 0,
                        _ => (1i128 << 72) - 1,
                    };
                    let v = (base + delta as i128).clamp(0, (1i128 << 72) - 1) as u128;
                    out = ((v >> (8 * (8 - off))) & 0xff) as u8;
                    if off == 8 {
                        *self.shared.borrow_mut().landed.entry("E3").or_insert(0) += 1;
                    }
                }
            }
            Mode::TieAt { call: c, iter: it, depth, dir } => {
                if call == c && iter == it && off >= 10 {
                    if off == 10 {
                        if let (Some((mu, sigma, sigmin)), true) = (params, self.iter_buf.len() == 10) {
                            let p = rs::prologue(mu, sigma, sigmin);
                            let mut b9 = [0u8; 9];
                            b9.copy_from_slice(&self.iter_buf[..9]);
                            let z0 = rs::base_sampler(b9);
                            let b = (self.iter_buf[9] & 1) as i16;
                            let (_z, x) = rs::x_of(&p, z0, b);
                            let z = rs::comparands(x, p.ccs)[0];
                            self.pending_tie = Some((z, depth, dir));
                        }
                    }
                    if let Some((z, depth, dir)) = self.pending_tie {
                        let k = off - 10; // 0..6
                        let zb = ((z >> (56 - 8 * k)) & 0xff) as u8;
                        if (k as u8) < depth {
                            out = zb;
                        } else if k as u8 == depth {
                            out = if dir >= 0 { zb.wrapping_add(1) } else { zb.wrapping_sub(1) };
                        }
                        if off == 16 {
                            let mut s = self.shared.borrow_mut();
                            *s.landed.entry("E2").or_insert(0) += 1;
                            if (depth as usize) > s.max_tie_depth {
                                s.max_tie_depth = depth as usize;
                            }
                        }
                    }
                }
            }
        }
        self.iter_buf.push(out);
        if let Some(r) = self.record.as_mut() {
            r.push(out);
        }
        out
    }

    fn raw_byte(&mut self, phase: u8) -> u8 {
        self.emitted(1);
        self.tick(phase);
        let b = self.bytes.byte();
        if let Some(r) = self.record.as_mut() {
            r.push(b);
        }
        b
    }
}

impl RngCore for SimStream {
    fn next_u32(&mut self) -> u32 {
        let b = self.sampler_byte();
        ((self.junk.next_u64() as u32) << 8) | b as u32
    }
    fn next_u64(&mut self) -> u64 {
        let mut v = 0u64;
        for i in 0..8 {
            v |= (self.raw_byte(2) as u64) << (8 * i);
        }
        v
    }
    fn fill_bytes(&mut self, dest: &mut [u8]) {
        // 40 bytes = salt, anything else = the vestigial per-attempt seed
        let phase = if dest.len() == 40 { 1 } else { 2 };
        for d in dest.iter_mut() {
            *d = self.raw_byte(phase);
        }
    }
    fn try_fill_bytes(&mut self, dest: &mut [u8]) -> Result<(), rand::Error> {
        self.fill_bytes(dest);
        Ok(())
    }
}

/// A source that can be installed behind hook H1 while still being inspected
/// afterwards: the thread-local slot owns a forwarding box, the harness keeps
/// the other `Rc`.
pub struct SharedStream(pub Rc<RefCell<SimStream>>);

impl RngCore for SharedStream {
    fn next_u32(&mut self) -> u32 {
        self.0.borrow_mut().next_u32()
    }
    fn next_u64(&mut self) -> u64 {
        self.0.borrow_mut().next_u64()
    }
    fn fill_bytes(&mut self, dest: &mut [u8]) {
        self.0.borrow_mut().fill_bytes(dest)
    }
    fn try_fill_bytes(&mut self, dest: &mut [u8]) -> Result<(), rand::Error> {
        self.0.borrow_mut().try_fill_bytes(dest)
    }
}

/// Per-thread installation of observer + (optionally) a stream; restores the
/// previous state when dropped (also on unwind).
pub struct Installed {
    prev_obs: Option<Option<Box<dyn Observer>>>,
    prev_src: Option<Option<Box<dyn RngCore>>>,
}

impl Installed {
    pub fn observer(shared: Rc<RefCell<Shared>>, handle: Option<Rc<Handle>>) -> Installed {
        let prev = falcon_rust::verif_hooks::set_observer(Some(Box::new(SimObserver { shared, handle })));
        Installed {
            prev_obs: Some(prev),
            prev_src: None,
        }
    }
    pub fn with_stream(mut self, stream: Rc<RefCell<SimStream>>) -> Installed {
        let prev = falcon_rust::verif_hooks::set_entropy(Some(Box::new(SharedStream(stream))));
        self.prev_src = Some(prev);
        self
    }
}

impl Drop for Installed {
    fn drop(&mut self) {
        if let Some(p) = self.prev_src.take() {
            falcon_rust::verif_hooks::set_entropy(p);
        }
        if let Some(p) = self.prev_obs.take() {
            falcon_rust::verif_hooks::set_observer(p);
        }
    }
}
