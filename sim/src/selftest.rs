//! Start-up self-test of the oracles. A failure here is a harness error
//! (exit 2), never a violation.

use crate::reference::codec;
use crate::reference::field::{schoolbook, Ntt};
use crate::reference::sampler as rs;
use crate::rng::Prng;

pub fn run() -> i32 {
    let mut bad = 0;
    let mut rng = Prng::new(0x5e1f);
    // own NTT vs schoolbook
    for &n in &[8usize, 512, 1024] {
        let ntt = Ntt::new(n);
        let a: Vec<i64> = (0..n).map(|_| rng.below(12289) as i64).collect();
        let b: Vec<i64> = (0..n).map(|_| rng.below(12289) as i64).collect();
        if ntt.mul(&a, &b) != schoolbook(&a, &b) {
            eprintln!("selftest: NTT != schoolbook at n={}", n);
            bad += 1;
        }
        if ntt.inverse(&ntt.forward(&a)) != a {
            eprintln!("selftest: NTT round trip at n={}", n);
            bad += 1;
        }
    }
    // codecs round trip
    for &n in &[512usize, 1024] {
        let p = codec::params(n);
        let v: Vec<i64> = (0..n).map(|_| rng.below(400) as i64 - 200).collect();
        match codec::compress(&v, p.sig_len - 41) {
            Some(b) => {
                if codec::decompress(&b, n) != Ok(v.clone()) {
                    eprintln!("selftest: compress/decompress round trip n={}", n);
                    bad += 1;
                }
            }
            None => {
                eprintln!("selftest: compress failed n={}", n);
                bad += 1;
            }
        }
        let h: Vec<i64> = (0..n).map(|_| rng.below(12289) as i64).collect();
        if codec::pk_decode(p, &codec::pk_encode(p, &h)) != Ok(h) {
            eprintln!("selftest: pk codec n={}", n);
            bad += 1;
        }
        let lim = 1i64 << (p.fg_bits - 1);
        let k = codec::SkFields {
            f: (0..n).map(|_| rng.below(2 * lim as u64 - 1) as i64 - lim + 1).collect(),
            g: (0..n).map(|_| rng.below(2 * lim as u64 - 1) as i64 - lim + 1).collect(),
            cf: (0..n).map(|_| rng.below(255) as i64 - 127).collect(),
        };
        match codec::sk_encode(p, &k) {
            Some(b) => {
                if codec::sk_decode(p, &b).as_ref() != Ok(&k) {
                    eprintln!("selftest: sk codec n={}", n);
                    bad += 1;
                }
            }
            None => {
                eprintln!("selftest: sk encode n={}", n);
                bad += 1;
            }
        }
    }
    // RCDT sanity: strictly decreasing, last = 1, first < 2^72
    let t = rs::rcdt();
    if !(t.windows(2).all(|w| w[0] > w[1]) && t[17] == 1 && t[0] < (1u128 << 72)) {
        eprintln!("selftest: RCDT table malformed");
        bad += 1;
    }
    // ApproxExp: 2^63 * ccs * exp(-x) to within 2^-40 relative
    for _ in 0..200 {
        let x = rng.f64() * rs::LN2;
        let ccs = 0.5 + rng.f64() * 0.5;
        let got = rs::approx_exp(x, ccs) as f64;
        let want = 9223372036854775808.0 * ccs * (-x).exp();
        if ((got - want) / want).abs() > 1e-12 {
            eprintln!("selftest: approx_exp({}, {}) = {} want {}", x, ccs, got, want);
            bad += 1;
            break;
        }
    }
    // reference FFT: round trip, product vs schoolbook, split/merge
    {
        use crate::reference::fft;
        let n = 64;
        let a: Vec<f64> = (0..n).map(|_| rng.below(200) as f64 - 100.0).collect();
        let b: Vec<f64> = (0..n).map(|_| rng.below(200) as f64 - 100.0).collect();
        let fa = fft::fft(&a);
        let fb = fft::fft(&b);
        let back = fft::ifft(&fa);
        if a.iter().zip(back.iter()).any(|(x, y)| (x - y).abs() > 1e-6) {
            eprintln!("selftest: reference FFT round trip");
            bad += 1;
        }
        let prod = fft::ifft(&fft::pmul(&fa, &fb));
        let ai: Vec<i64> = a.iter().map(|x| *x as i64).collect();
        let bi: Vec<i64> = b.iter().map(|x| *x as i64).collect();
        let want = crate::reference::field::schoolbook_z(&ai, &bi);
        if prod.iter().zip(want.iter()).any(|(x, y)| (x - *y as f64).abs() > 1e-4) {
            eprintln!("selftest: reference FFT product != schoolbook");
            bad += 1;
        }
        let (e, o) = fft::split(&fa);
        let m = fft::merge(&e, &o);
        if m.iter().zip(fa.iter()).any(|(x, y)| (*x - *y).norm2() > 1e-12) {
            eprintln!("selftest: split/merge");
            bad += 1;
        }
    }
    if bad > 0 {
        2
    } else {
        0
    }
}
