//! The run PRNG. Every choice in a simulated run (schedule, faults, workload,
//! entropy bytes handed to the code under test) is derived from one of these,
//! seeded from `mix(VERIF_SEED, property, run index, purpose)`.
//! xoshiro256** seeded through SplitMix64; no dependency on the `rand` crate's
//! generators so that the byte streams are stable across crate versions.

#[derive(Clone, Debug)]
pub struct Prng {
    s: [u64; 4],
}

pub fn splitmix(x: &mut u64) -> u64 {
    *x = x.wrapping_add(0x9E3779B97F4A7C15);
    let mut z = *x;
    z = (z ^ (z >> 30)).wrapping_mul(0xBF58476D1CE4E5B9);
    z = (z ^ (z >> 27)).wrapping_mul(0x94D049BB133111EB);
    z ^ (z >> 31)
}

/// Mix several integers into one seed (order-sensitive).
pub fn mix(parts: &[u64]) -> u64 {
    let mut h: u64 = 0x243F6A8885A308D3;
    for &p in parts {
        let mut x = h ^ p.wrapping_mul(0x9E3779B97F4A7C15);
        h = splitmix(&mut x).rotate_left(23) ^ p;
        let mut y = h;
        h = splitmix(&mut y);
    }
    h
}

/// FNV-1a style 64-bit hash of bytes (used for event-log and trace hashes).
pub fn hash_bytes(mut h: u64, data: &[u8]) -> u64 {
    if h == 0 {
        h = 0xcbf29ce484222325;
    }
    for &b in data {
        h ^= b as u64;
        h = h.wrapping_mul(0x100000001b3);
    }
    h
}

pub fn hash_u64(h: u64, v: u64) -> u64 {
    hash_bytes(h, &v.to_le_bytes())
}

impl Prng {
    pub fn new(seed: u64) -> Self {
        let mut x = seed;
        let s = [
            splitmix(&mut x),
            splitmix(&mut x),
            splitmix(&mut x),
            splitmix(&mut x),
        ];
        Prng { s }
    }
    pub fn fork(&mut self, tag: u64) -> Prng {
        let a = self.next_u64();
        Prng::new(mix(&[a, tag]))
    }
    #[inline]
    pub fn next_u64(&mut self) -> u64 {
        let result = self.s[1].wrapping_mul(5).rotate_left(7).wrapping_mul(9);
        let t = self.s[1] << 17;
        self.s[2] ^= self.s[0];
        self.s[3] ^= self.s[1];
        self.s[1] ^= self.s[2];
        self.s[0] ^= self.s[3];
        self.s[2] ^= t;
        self.s[3] = self.s[3].rotate_left(45);
        result
    }
    #[inline]
    pub fn byte(&mut self) -> u8 {
        (self.next_u64() >> 56) as u8
    }
    /// Uniform in 0..n (n > 0).
    pub fn below(&mut self, n: u64) -> u64 {
        debug_assert!(n > 0);
        // multiply-shift with rejection: exact uniformity
        loop {
            let x = self.next_u64();
            let m = (x as u128) * (n as u128);
            let lo = m as u64;
            if lo >= n.wrapping_neg() % n {
                return (m >> 64) as u64;
            }
        }
    }
    pub fn range(&mut self, lo: u64, hi_incl: u64) -> u64 {
        lo + self.below(hi_incl - lo + 1)
    }
    pub fn usize_below(&mut self, n: usize) -> usize {
        self.below(n as u64) as usize
    }
    pub fn chance(&mut self, num: u64, den: u64) -> bool {
        self.below(den) < num
    }
    pub fn f64(&mut self) -> f64 {
        (self.next_u64() >> 11) as f64 * (1.0 / (1u64 << 53) as f64)
    }
    pub fn fill(&mut self, buf: &mut [u8]) {
        for chunk in buf.chunks_mut(8) {
            let v = self.next_u64().to_le_bytes();
            chunk.copy_from_slice(&v[..chunk.len()]);
        }
    }
    pub fn bytes(&mut self, n: usize) -> Vec<u8> {
        let mut v = vec![0u8; n];
        self.fill(&mut v);
        v
    }
    pub fn pick<'a, T>(&mut self, xs: &'a [T]) -> &'a T {
        &xs[self.usize_below(xs.len())]
    }
    pub fn seed32(&mut self) -> [u8; 32] {
        let mut s = [0u8; 32];
        self.fill(&mut s);
        s
    }
}

/// Seed for key generation identified by a small counter: little-endian
/// counter in the first eight bytes, zero elsewhere (the convention of the
/// pinned C05 seeds).
pub fn counter_seed(c: u64) -> [u8; 32] {
    let mut s = [0u8; 32];
    s[..8].copy_from_slice(&c.to_le_bytes());
    s
}

pub fn hex(b: &[u8]) -> String {
    let mut s = String::with_capacity(b.len() * 2);
    for x in b {
        s.push_str(&format!("{:02x}", x));
    }
    s
}

pub fn unhex(s: &str) -> Option<Vec<u8>> {
    if s.len() % 2 != 0 {
        return None;
    }
    (0..s.len() / 2)
        .map(|i| u8::from_str_radix(&s[2 * i..2 * i + 2], 16).ok())
        .collect()
}


/// hex of a message; a long message made of one repeated byte is written as "fill:<byte>:<length>"
/// so that plans with multi-megabyte messages stay small
pub fn msg_hex(m: &[u8]) -> String {
    if m.len() > 4096 && m.iter().all(|&b| b == m[0]) {
        format!("fill:{:02x}:{}", m[0], m.len())
    } else {
        hex(m)
    }
}

pub fn msg_unhex(s: &str) -> Option<Vec<u8>> {
    if let Some(rest) = s.strip_prefix("fill:") {
        let mut it = rest.split(':');
        let b = u8::from_str_radix(it.next()?, 16).ok()?;
        let n: usize = it.next()?.parse().ok()?;
        if n > (1 << 27) {
            return None;
        }
        return Some(vec![b; n]);
    }
    unhex(s)
}
