//! Proof of determinism on a sample: the same (property, seed, run) executed
//! twice in isolated children of this process, and once more from a fresh
//! process that rebuilds its own context (key pool regenerated in its own child
//! processes, with a different worker count), must yield byte-identical run
//! outcomes (statistics, event-log hash, violations). A mismatch is a harness
//! error (exit 2), never a finding.

use crate::isolate::{isolated, run_timeout_s};
use crate::props;
use crate::report::Tier;
use crate::rng::{hash_bytes, Prng};

fn sample_indices(n: u64, samples: usize, seed: u64) -> Vec<u64> {
    let mut rng = Prng::new(seed ^ 0xde7e);
    let mut v: Vec<u64> = (0..n.min(3)).collect();
    while v.len() < samples.min(n as usize) {
        let r = rng.below(n);
        if !v.contains(&r) {
            v.push(r);
        }
    }
    v.sort();
    v
}

fn hashes(id: &str, tier: Tier, seed: u64, runs: &[u64]) -> Option<Vec<u64>> {
    let (_n, f) = props::runner(id, tier, seed)?;
    let mut out = Vec::new();
    for &r in runs {
        let b = isolated(|| f(r).to_bytes(), run_timeout_s()).ok()?;
        out.push(hash_bytes(0, &b));
    }
    Some(out)
}

/// child entry: `falcon-sim det-child <id> <tier> <seed> <r,r,r>`
pub fn child_main(args: &[String]) -> i32 {
    let id = &args[0];
    let tier = if args[1] == "thorough" { Tier::Thorough } else { Tier::Quick };
    let seed: u64 = args[2].parse().unwrap_or(0);
    let runs: Vec<u64> = args[3].split(',').filter_map(|s| s.parse().ok()).collect();
    match hashes(id, tier, seed, &runs) {
        Some(h) => {
            println!("HASHES {}", h.iter().map(|x| format!("{:016x}", x)).collect::<Vec<_>>().join(","));
            0
        }
        None => 2,
    }
}

pub fn run(ids: &[String], tier: Tier, seed: u64, samples: usize) -> i32 {
    let ids: Vec<String> = if ids.is_empty() { props::ALL.iter().map(|s| s.to_string()).collect() } else { ids.to_vec() };
    let mut bad = 0;
    for id in &ids {
        let n = match props::runner(id, tier, seed) {
            Some((n, _)) => n,
            None => {
                eprintln!("determinism: cannot build the context of {}", id);
                bad += 1;
                continue;
            }
        };
        let runs = sample_indices(n, samples, seed);
        let a = hashes(id, tier, seed, &runs);
        let b = hashes(id, tier, seed, &runs);
        // fresh process, different worker count for whatever it builds in parallel
        let exe = std::env::current_exe().unwrap();
        let out = std::process::Command::new(exe)
            .args(["det-child", id, tier.name(), &seed.to_string(), &runs.iter().map(|r| r.to_string()).collect::<Vec<_>>().join(",")])
            .env("VERIF_WORKERS", "3")
            .output();
        let c: Option<Vec<u64>> = out.ok().and_then(|o| {
            String::from_utf8_lossy(&o.stdout)
                .lines()
                .find_map(|l| l.strip_prefix("HASHES ").map(|h| h.split(',').filter_map(|x| u64::from_str_radix(x, 16).ok()).collect()))
        });
        let ok = a.is_some() && a == b && a == c;
        println!(
            "DETERMINISM {} tier={} seed={} runs={:?} same-process={} fresh-process={} -> {}",
            id,
            tier.name(),
            seed,
            runs,
            a == b,
            a == c,
            if ok { "ok" } else { "MISMATCH" }
        );
        if !ok {
            bad += 1;
        }
    }
    if bad > 0 {
        eprintln!("HARNESS-ERROR: determinism check failed for {} properties", bad);
        2
    } else {
        0
    }
}
