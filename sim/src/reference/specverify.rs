//! SpecVerify: Algorithm 16 with Algorithms 3 (HashToPoint) and 18
//! (Decompress), on integers, constants from the specification.

use super::codec::{self, DecompressReject, Params};
use super::field::{centred, Ntt, Q};
use sha3::digest::{ExtendableOutput, Update, XofReader};
use sha3::Shake256;

/// Algorithm 3.
pub fn hash_to_point(salt_and_msg: &[u8], n: usize) -> Vec<i64> {
    let k = (1u32 << 16) / Q as u32; // 5
    let mut h = Shake256::default();
    h.update(salt_and_msg);
    let mut r = h.finalize_xof();
    let mut out = Vec::with_capacity(n);
    let mut buf = [0u8; 2];
    while out.len() < n {
        r.read(&mut buf);
        let t = ((buf[0] as u32) << 8) | buf[1] as u32;
        if t < k * Q as u32 {
            out.push((t % Q as u32) as i64);
        }
    }
    out
}

#[derive(Debug, Clone, PartialEq, Eq)]
pub enum Verdict {
    Accept { norm: i64 },
    RejectNorm { norm: i64 },
    RejectEncoding(DecompressReject),
}

impl Verdict {
    pub fn accepted(&self) -> bool {
        matches!(self, Verdict::Accept { .. })
    }
}

pub struct SpecVerifier {
    pub p: Params,
    pub ntt: Ntt,
}

impl SpecVerifier {
    pub fn new(n: usize) -> Self {
        SpecVerifier {
            p: codec::params(n),
            ntt: Ntt::new(n),
        }
    }

    /// `h`: public-key coefficients (any integers, reduced mod q here);
    /// `salt`: 40 bytes; `body`: the compressed part of the signature.
    pub fn verify(&self, msg: &[u8], salt: &[u8], body: &[u8], h: &[i64]) -> Verdict {
        let n = self.p.n;
        let s2 = match codec::decompress(body, n) {
            Ok(v) => v,
            Err(e) => return Verdict::RejectEncoding(e),
        };
        let mut sm = Vec::with_capacity(salt.len() + msg.len());
        sm.extend_from_slice(salt);
        sm.extend_from_slice(msg);
        let c = hash_to_point(&sm, n);
        let prod = self.ntt.mul(&s2, h);
        let mut norm: i128 = 0;
        for i in 0..n {
            let s1 = centred(c[i] - prod[i]);
            norm += (s1 * s1) as i128;
            norm += (s2[i] as i128) * (s2[i] as i128);
        }
        let norm = if norm > i64::MAX as i128 { i64::MAX } else { norm as i64 };
        if norm <= self.p.bound {
            Verdict::Accept { norm }
        } else {
            Verdict::RejectNorm { norm }
        }
    }
}
