//! Small executable reference models used as oracles. Nothing in here shares
//! code with falcon-rust.
pub mod codec;
pub mod fft;
pub mod field;
pub mod keygen;
pub mod sampler;
pub mod specverify;
