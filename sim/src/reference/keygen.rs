//! Reference model of the *candidate stream* of key generation (specification Alg. 5, lines 1-8,
//! in the parameterisation of the Python reference that falcon-rust follows): the seed is expanded
//! by ChaCha12 (rand's StdRng), every sampler byte is the low byte of one 32-bit output word, and a
//! candidate polynomial is 4096 samples of D_{Z, 0, 1.43300980528773} summed in blocks of 4096/n.
//!
//! The model is used to *select* seeds, never to judge: it predicts, for a seed, properties of the
//! first candidate pair (f, g) that key generation will look at - e.g. that f vanishes at a
//! particular root of X^n + 1 mod q, so that the candidate must be discarded - and the checks then
//! run the real key generation on the selected seeds. A rare branch of ntru_gen that volume cannot
//! reach (one candidate in 12289 per root) is reached by selection. If the tree under test ever
//! consumes its seed differently the selected seeds simply stop being special; nothing is alarmed.

use super::field::{invq, modq, powq, Q};
use super::sampler as rs;
use rand::{RngCore, SeedableRng};

pub const SIGMA_STAR: f64 = 1.43300980528773;

/// Algorithm 15 on a byte source, in the consumption pattern of falcon-rust (17 bytes per
/// iteration: 9 base, 1 sign, 7 Bernoulli; a complete tie rejects).
pub fn sampler_z(mu: f64, sigma: f64, sigmin: f64, src: &mut dyn FnMut() -> u8) -> i64 {
    let p = rs::prologue(mu, sigma, sigmin);
    loop {
        let mut b = [0u8; 17];
        for x in b.iter_mut() {
            *x = src();
        }
        let mut b9 = [0u8; 9];
        b9.copy_from_slice(&b[..9]);
        let z0 = rs::base_sampler(b9);
        let (z, x) = rs::x_of(&p, z0, (b[9] & 1) as i16);
        let zc = rs::comparands(x, p.ccs)[0];
        if rs::ber_exp_z(zc, &b[10..17]) == rs::Ber::True {
            return z as i64 + p.s as i64;
        }
    }
}

pub fn gen_poly(n: usize, src: &mut dyn FnMut() -> u8) -> Vec<i64> {
    let k = 4096 / n;
    let mut out = vec![0i64; n];
    for i in 0..4096 {
        out[i / k] += sampler_z(0.0, SIGMA_STAR, SIGMA_STAR - 0.001, src);
    }
    out
}

/// the first `count` candidate pairs (f, g) of `seed`
pub fn candidates(seed: [u8; 32], n: usize, count: usize) -> Vec<(Vec<i64>, Vec<i64>)> {
    let mut rng = rand::rngs::StdRng::from_seed(seed);
    let mut src = || rng.next_u32() as u8;
    (0..count).map(|_| (gen_poly(n, &mut src), gen_poly(n, &mut src))).collect()
}

/// f(rho) mod q
pub fn eval(f: &[i64], rho: i64) -> i64 {
    let mut acc = 0i64;
    for &c in f.iter().rev() {
        acc = modq(acc * rho + c);
    }
    acc
}

/// Roots of X^n + 1 mod q that sit at the ends of a transform's output in the usual layouts:
/// psi, -psi, 1/psi, -1/psi for the 2n-th root psi = 1331^(4096/2n) (the root falcon-rust and the
/// Python reference start from) and for the harness's own generator.
pub fn end_roots(n: usize) -> Vec<i64> {
    let mut v = Vec::new();
    let psi_a = powq(1331, (4096 / (2 * n)) as u64);
    let psi_b = powq(super::field::generator(), ((Q - 1) as usize / (2 * n)) as u64);
    for psi in [psi_a, psi_b] {
        for r in [psi, modq(-psi), invq(psi), modq(-invq(psi))] {
            if powq(r, n as u64) == Q - 1 && !v.contains(&r) {
                v.push(r);
            }
        }
    }
    v
}

/// squared Gram-Schmidt norm of the basis a candidate (f, g) would complete to (Alg. 5, line 9)
pub fn gs_norm_sq(f: &[i64], g: &[i64]) -> f64 {
    let n = f.len();
    let ff = super::fft::fft(&f.iter().map(|&x| x as f64).collect::<Vec<_>>());
    let gf = super::fft::fft(&g.iter().map(|&x| x as f64).collect::<Vec<_>>());
    let g1: f64 = f.iter().chain(g.iter()).map(|&x| (x * x) as f64).sum();
    let q = Q as f64;
    let g2: f64 = q * q / n as f64 * ff.iter().zip(gf.iter()).map(|(a, b)| 1.0 / (a.norm2() + b.norm2())).sum::<f64>();
    g1.max(g2)
}

/// Walk the candidate stream of `seed` as key generation does (range of the coefficients,
/// invertibility of f mod q, Gram-Schmidt norm; solvability of the NTRU equation is not modelled)
/// for at most `max_candidates` candidates. If the first candidate that passes range and norm has
/// an f that vanishes at exactly one root of X^n + 1 mod q, and that root is one of `roots`,
/// return (root, index of the candidate): key generation must discard it, and only because of that
/// one transform coefficient.
pub fn discarded_for_end_root(seed: [u8; 32], n: usize, roots: &[i64], max_candidates: usize) -> Option<(i64, usize)> {
    let mut rng = rand::rngs::StdRng::from_seed(seed);
    let mut src = || rng.next_u32() as u8;
    let lim = if n == 1024 { 16 } else { 32 };
    let bound = 1.3689 * Q as f64;
    for j in 0..max_candidates {
        let f = gen_poly(n, &mut src);
        let g = gen_poly(n, &mut src);
        if f.iter().chain(g.iter()).any(|c| c.abs() >= lim) {
            continue;
        }
        let hit = roots.iter().copied().find(|&r| eval(&f, r) == 0);
        let gs = gs_norm_sq(&f, &g);
        if (gs - bound).abs() < 1e-6 * bound {
            return None; // too close to call
        }
        if gs > bound {
            continue;
        }
        let zeros = super::field::Ntt::new(n).forward(&f).iter().filter(|&&x| x == 0).count();
        return match (hit, zeros) {
            (Some(r), 1) => Some((r, j)),
            _ => None, // accepted (zeros == 0) or discarded for some other root: not what we look for
        };
    }
    None
}

/// Walk the candidate stream of `seed` like `discarded_for_end_root` and describe the first candidate
/// that passes range, invertibility and norm (the one key generation accepts, unless the NTRU equation
/// has no solution for it): (index, ||f||^2 + ||g||^2, squared Gram-Schmidt norm).
pub fn accepted_candidate(seed: [u8; 32], n: usize, max_candidates: usize) -> Option<(usize, i64, f64)> {
    let mut rng = rand::rngs::StdRng::from_seed(seed);
    let mut src = || rng.next_u32() as u8;
    let lim = if n == 1024 { 16 } else { 32 };
    let bound = 1.3689 * Q as f64;
    let ntt = super::field::Ntt::new(n);
    for j in 0..max_candidates {
        let f = gen_poly(n, &mut src);
        let g = gen_poly(n, &mut src);
        if f.iter().chain(g.iter()).any(|c| c.abs() >= lim) {
            continue;
        }
        if ntt.forward(&f).iter().any(|&x| x == 0) {
            continue;
        }
        let gs = gs_norm_sq(&f, &g);
        if (gs - bound).abs() < 1e-9 * bound {
            return None;
        }
        if gs > bound {
            continue;
        }
        let g1: i64 = f.iter().chain(g.iter()).map(|x| x * x).sum();
        return Some((j, g1, gs));
    }
    None
}
