//! Reference encoders / strict decoders, written from the specification
//! (falcon.pdf v1.2: section 3.11.2 public key, 3.11.5 private key, 3.11.3
//! signature, Algorithms 17 and 18). Bit-level, no cleverness.

use super::field::Q;

#[derive(Clone)]
pub struct Bits<'a> {
    data: &'a [u8],
    pub pos: usize,
}

impl<'a> Bits<'a> {
    pub fn new(data: &'a [u8]) -> Self {
        Bits { data, pos: 0 }
    }
    pub fn len(&self) -> usize {
        self.data.len() * 8
    }
    pub fn remaining(&self) -> usize {
        self.len() - self.pos
    }
    pub fn get(&self, i: usize) -> Option<bool> {
        if i >= self.len() {
            None
        } else {
            Some((self.data[i / 8] >> (7 - i % 8)) & 1 == 1)
        }
    }
    pub fn next(&mut self) -> Option<bool> {
        let b = self.get(self.pos)?;
        self.pos += 1;
        Some(b)
    }
    pub fn take(&mut self, w: usize) -> Option<u64> {
        let mut v = 0u64;
        for _ in 0..w {
            v = (v << 1) | self.next()? as u64;
        }
        Some(v)
    }
}

#[derive(Default, Clone)]
pub struct BitWriter {
    pub bits: Vec<bool>,
}

impl BitWriter {
    pub fn push(&mut self, b: bool) {
        self.bits.push(b)
    }
    pub fn push_bits(&mut self, v: u64, w: usize) {
        for i in (0..w).rev() {
            self.bits.push((v >> i) & 1 == 1);
        }
    }
    pub fn len(&self) -> usize {
        self.bits.len()
    }
    /// pack into bytes, zero padding the last byte
    pub fn to_bytes(&self) -> Vec<u8> {
        let mut out = vec![0u8; (self.bits.len() + 7) / 8];
        for (i, &b) in self.bits.iter().enumerate() {
            if b {
                out[i / 8] |= 1 << (7 - i % 8);
            }
        }
        out
    }
}

// ---------------------------------------------------------------------------
// Algorithm 17 / 18
// ---------------------------------------------------------------------------

/// Bit string of one coefficient (sign, 7 low bits, unary high part, stop bit).
pub fn push_coefficient(w: &mut BitWriter, s: i64) {
    w.push(s < 0);
    let a = s.unsigned_abs();
    w.push_bits(a & 127, 7);
    for _ in 0..(a >> 7) {
        w.push(false);
    }
    w.push(true);
}

/// Algorithm 17: None if the encoding does not fit into `slen_bytes`.
pub fn compress(v: &[i64], slen_bytes: usize) -> Option<Vec<u8>> {
    let mut w = BitWriter::default();
    for &s in v {
        push_coefficient(&mut w, s);
    }
    if w.len() > slen_bytes * 8 {
        return None;
    }
    let mut out = w.to_bytes();
    out.resize(slen_bytes, 0);
    Some(out)
}

#[derive(Debug, Clone, Copy, PartialEq, Eq, PartialOrd, Ord)]
pub enum DecompressReject {
    /// the string ended inside a coefficient
    Truncated,
    /// sign bit set on a zero coefficient
    NegativeZero,
    /// bits after the last coefficient are not all zero
    Padding,
}

/// Algorithm 18 with unbounded unary runs: Ok(vector) or the reason for ⊥.
pub fn decompress(x: &[u8], n: usize) -> Result<Vec<i64>, DecompressReject> {
    let mut b = Bits::new(x);
    let mut out = Vec::with_capacity(n);
    for _ in 0..n {
        let sign = b.next().ok_or(DecompressReject::Truncated)?;
        let low = b.take(7).ok_or(DecompressReject::Truncated)? as i64;
        let mut k = 0i64;
        loop {
            match b.next() {
                None => return Err(DecompressReject::Truncated),
                Some(true) => break,
                Some(false) => k += 1,
            }
        }
        let mag = low + (k << 7);
        if mag == 0 && sign {
            return Err(DecompressReject::NegativeZero);
        }
        out.push(if sign { -mag } else { mag });
    }
    while let Some(bit) = b.next() {
        if bit {
            return Err(DecompressReject::Padding);
        }
    }
    Ok(out)
}

// ---------------------------------------------------------------------------
// frames
// ---------------------------------------------------------------------------

#[derive(Debug, Clone, Copy, PartialEq, Eq, PartialOrd, Ord)]
pub enum FrameReject {
    Length,
    Header,
    WrongVariant,
    FieldRange,
}

#[derive(Clone, Copy, Debug, PartialEq, Eq)]
pub struct Params {
    pub n: usize,
    pub logn: u8,
    pub sk_len: usize,
    pub pk_len: usize,
    pub sig_len: usize,
    pub fg_bits: usize,
    pub bound: i64,
}

pub const P512: Params = Params {
    n: 512,
    logn: 9,
    sk_len: 1281,
    pk_len: 897,
    sig_len: 666,
    fg_bits: 6,
    bound: 34034726,
};
pub const P1024: Params = Params {
    n: 1024,
    logn: 10,
    sk_len: 2305,
    pk_len: 1793,
    sig_len: 1280,
    fg_bits: 5,
    bound: 70265242,
};

pub fn params(n: usize) -> Params {
    match n {
        512 => P512,
        1024 => P1024,
        _ => panic!("harness: unsupported n"),
    }
}

/// Strict public-key decoder: header 0000nnnn, n coefficients of 14 bits, each < q.
pub fn pk_decode(p: Params, b: &[u8]) -> Result<Vec<i64>, FrameReject> {
    if b.len() != p.pk_len {
        // the other variant's length is reported as such
        if b.len() == P512.pk_len || b.len() == P1024.pk_len {
            return Err(FrameReject::WrongVariant);
        }
        return Err(FrameReject::Length);
    }
    if b[0] != p.logn {
        return Err(FrameReject::Header);
    }
    let mut bits = Bits::new(&b[1..]);
    let mut h = Vec::with_capacity(p.n);
    for _ in 0..p.n {
        let v = bits.take(14).ok_or(FrameReject::Length)? as i64;
        if v >= Q {
            return Err(FrameReject::FieldRange);
        }
        h.push(v);
    }
    if bits.remaining() != 0 {
        return Err(FrameReject::Length);
    }
    Ok(h)
}

pub fn pk_encode(p: Params, h: &[i64]) -> Vec<u8> {
    let mut w = BitWriter::default();
    w.push_bits(p.logn as u64, 8);
    for &x in h {
        w.push_bits(x as u64, 14);
    }
    let out = w.to_bytes();
    assert_eq!(out.len(), p.pk_len);
    out
}

#[derive(Clone, Debug, PartialEq, Eq)]
pub struct SkFields {
    pub f: Vec<i64>,
    pub g: Vec<i64>,
    pub cf: Vec<i64>,
}

fn take_signed(bits: &mut Bits, w: usize) -> Result<i64, FrameReject> {
    let raw = bits.take(w).ok_or(FrameReject::Length)? as i64;
    let v = if raw >= (1 << (w - 1)) { raw - (1 << w) } else { raw };
    if v == -(1 << (w - 1)) {
        return Err(FrameReject::FieldRange);
    }
    Ok(v)
}

/// Strict secret-key decoder: header 0101nnnn, f and g on `fg_bits`, F on 8
/// bits, two's complement, the minimum value is reserved.
pub fn sk_decode(p: Params, b: &[u8]) -> Result<SkFields, FrameReject> {
    if b.len() != p.sk_len {
        if b.len() == P512.sk_len || b.len() == P1024.sk_len {
            // decide by header below if possible; length alone identifies the other variant
            if !b.is_empty() && b[0] >> 4 == 5 && (b[0] & 15 == 9 || b[0] & 15 == 10) {
                return Err(FrameReject::WrongVariant);
            }
        }
        return Err(FrameReject::Length);
    }
    if b[0] != (0x50 | p.logn) {
        return Err(FrameReject::Header);
    }
    let mut bits = Bits::new(&b[1..]);
    let mut rd = |w: usize| -> Result<Vec<i64>, FrameReject> {
        (0..p.n).map(|_| take_signed(&mut bits, w)).collect()
    };
    let f = rd(p.fg_bits)?;
    let g = rd(p.fg_bits)?;
    let cf = rd(8)?;
    if bits.remaining() != 0 {
        return Err(FrameReject::Length);
    }
    Ok(SkFields { f, g, cf })
}

/// Encoder; None if a coefficient does not fit its field.
pub fn sk_encode(p: Params, k: &SkFields) -> Option<Vec<u8>> {
    let mut w = BitWriter::default();
    w.push_bits((0x50 | p.logn) as u64, 8);
    let mut put = |v: &[i64], width: usize| -> Option<()> {
        let lim = 1i64 << (width - 1);
        for &x in v {
            if x <= -lim || x >= lim {
                return None;
            }
            w.push_bits((x & ((1 << width) - 1)) as u64, width);
        }
        Some(())
    };
    put(&k.f, p.fg_bits)?;
    put(&k.g, p.fg_bits)?;
    put(&k.cf, 8)?;
    let out = w.to_bytes();
    assert_eq!(out.len(), p.sk_len);
    Some(out)
}

/// falcon-rust's signature frame: one header byte 0x50|logn (this library's
/// own label; the reference implementation uses 0x30|logn), 40 bytes of salt,
/// compressed s2 zero-padded to the fixed length.
pub fn sig_header(p: Params) -> u8 {
    0x50 | p.logn
}

pub struct SigFrame<'a> {
    pub salt: &'a [u8],
    pub body: &'a [u8],
}

pub fn sig_decode(p: Params, b: &[u8]) -> Result<SigFrame<'_>, FrameReject> {
    if b.len() != p.sig_len {
        if b.len() == P512.sig_len || b.len() == P1024.sig_len {
            return Err(FrameReject::WrongVariant);
        }
        return Err(FrameReject::Length);
    }
    if b[0] != sig_header(p) {
        return Err(FrameReject::Header);
    }
    Ok(SigFrame {
        salt: &b[1..41],
        body: &b[41..],
    })
}

pub fn sig_encode(p: Params, salt: &[u8], s2: &[i64]) -> Option<Vec<u8>> {
    assert_eq!(salt.len(), 40);
    let body = compress(s2, p.sig_len - 41)?;
    let mut out = Vec::with_capacity(p.sig_len);
    out.push(sig_header(p));
    out.extend_from_slice(salt);
    out.extend_from_slice(&body);
    Some(out)
}
