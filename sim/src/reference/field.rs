//! Reference arithmetic in Z_q[X]/(X^n+1), q = 12289, written for the oracle.
//! Shares no code with falcon-rust. The NTT is self-tested against schoolbook
//! multiplication at start-up (`selftest`).

pub const Q: i64 = 12289;

pub fn modq(x: i64) -> i64 {
    let r = x % Q;
    if r < 0 {
        r + Q
    } else {
        r
    }
}

/// centred representative in [-6144, 6144]
pub fn centred(x: i64) -> i64 {
    let r = modq(x);
    if r > Q / 2 {
        r - Q
    } else {
        r
    }
}

pub fn powq(mut b: i64, mut e: u64) -> i64 {
    let mut r = 1i64;
    b = modq(b);
    while e > 0 {
        if e & 1 == 1 {
            r = r * b % Q;
        }
        b = b * b % Q;
        e >>= 1;
    }
    r
}

pub fn invq(a: i64) -> i64 {
    powq(a, (Q - 2) as u64)
}

/// A generator of Z_q^* found by search (q - 1 = 2^12 * 3).
pub fn generator() -> i64 {
    for g in 2..Q {
        if powq(g, ((Q - 1) / 2) as u64) != 1 && powq(g, ((Q - 1) / 3) as u64) != 1 {
            return g;
        }
    }
    unreachable!()
}

pub struct Ntt {
    pub n: usize,
    psi_pow: Vec<i64>,
    psi_inv_pow: Vec<i64>,
    omega: i64,
    omega_inv: i64,
    n_inv: i64,
}

impl Ntt {
    pub fn new(n: usize) -> Ntt {
        assert!(n.is_power_of_two() && n <= 2048);
        let g = generator();
        let psi = powq(g, ((Q - 1) as usize / (2 * n)) as u64);
        assert_eq!(powq(psi, n as u64), Q - 1);
        let psi_inv = invq(psi);
        let mut psi_pow = vec![1i64; n];
        let mut psi_inv_pow = vec![1i64; n];
        for i in 1..n {
            psi_pow[i] = psi_pow[i - 1] * psi % Q;
            psi_inv_pow[i] = psi_inv_pow[i - 1] * psi_inv % Q;
        }
        let omega = psi * psi % Q;
        Ntt {
            n,
            psi_pow,
            psi_inv_pow,
            omega,
            omega_inv: invq(omega),
            n_inv: invq(n as i64),
        }
    }

    fn cyclic(&self, a: &mut [i64], root: i64) {
        let n = self.n;
        // bit reversal
        let mut j = 0usize;
        for i in 1..n {
            let mut bit = n >> 1;
            while j & bit != 0 {
                j ^= bit;
                bit >>= 1;
            }
            j |= bit;
            if i < j {
                a.swap(i, j);
            }
        }
        let mut len = 2;
        while len <= n {
            let w_len = powq(root, (n / len) as u64);
            for start in (0..n).step_by(len) {
                let mut w = 1i64;
                for k in 0..len / 2 {
                    let u = a[start + k];
                    let v = a[start + k + len / 2] * w % Q;
                    a[start + k] = (u + v) % Q;
                    a[start + k + len / 2] = (u - v + Q) % Q;
                    w = w * w_len % Q;
                }
            }
            len <<= 1;
        }
    }

    /// forward negacyclic transform (evaluation at odd powers of psi)
    pub fn forward(&self, a: &[i64]) -> Vec<i64> {
        let mut v: Vec<i64> = a
            .iter()
            .enumerate()
            .map(|(i, &x)| modq(x) * self.psi_pow[i] % Q)
            .collect();
        self.cyclic(&mut v, self.omega);
        v
    }

    pub fn inverse(&self, a: &[i64]) -> Vec<i64> {
        let mut v: Vec<i64> = a.to_vec();
        self.cyclic(&mut v, self.omega_inv);
        v.iter()
            .enumerate()
            .map(|(i, &x)| x * self.n_inv % Q * self.psi_inv_pow[i] % Q)
            .collect()
    }

    /// a * b mod (X^n + 1, q), result in [0, q)
    pub fn mul(&self, a: &[i64], b: &[i64]) -> Vec<i64> {
        let fa = self.forward(a);
        let fb = self.forward(b);
        let fc: Vec<i64> = fa.iter().zip(fb.iter()).map(|(x, y)| x * y % Q).collect();
        self.inverse(&fc)
    }

    /// inverse of a in Z_q[X]/(X^n+1), if it exists
    pub fn inv(&self, a: &[i64]) -> Option<Vec<i64>> {
        let fa = self.forward(a);
        if fa.iter().any(|&x| x == 0) {
            return None;
        }
        let fi: Vec<i64> = fa.iter().map(|&x| invq(x)).collect();
        Some(self.inverse(&fi))
    }

    /// a / b where b is invertible
    pub fn div(&self, a: &[i64], b: &[i64]) -> Option<Vec<i64>> {
        let fa = self.forward(a);
        let fb = self.forward(b);
        if fb.iter().any(|&x| x == 0) {
            return None;
        }
        let fc: Vec<i64> = fa
            .iter()
            .zip(fb.iter())
            .map(|(x, y)| x * invq(*y) % Q)
            .collect();
        Some(self.inverse(&fc))
    }
}

/// schoolbook negacyclic product mod q (self-test oracle for the NTT)
pub fn schoolbook(a: &[i64], b: &[i64]) -> Vec<i64> {
    let n = a.len();
    let mut c = vec![0i64; n];
    for i in 0..n {
        if a[i] == 0 {
            continue;
        }
        for j in 0..n {
            let p = modq(a[i]) * modq(b[j]) % Q;
            let k = i + j;
            if k < n {
                c[k] = (c[k] + p) % Q;
            } else {
                c[k - n] = (c[k - n] - p + Q) % Q;
            }
        }
    }
    c
}

/// exact negacyclic product over Z (i128 accumulators)
pub fn schoolbook_z(a: &[i64], b: &[i64]) -> Vec<i128> {
    let n = a.len();
    let mut c = vec![0i128; n];
    for i in 0..n {
        if a[i] == 0 {
            continue;
        }
        for j in 0..n {
            let p = a[i] as i128 * b[j] as i128;
            let k = i + j;
            if k < n {
                c[k] += p;
            } else {
                c[k - n] -= p;
            }
        }
    }
    c
}
