//! Reference floating-point machinery for C10: negacyclic complex FFT (own
//! conventions), split/merge, the ffLDL tree of a secret basis (specification
//! Algorithm 9) and the decomposition of a signature's sampling noise into the
//! 2n Gram-Schmidt (tree-leaf) coordinates. Shares no code with falcon-rust.

#[derive(Clone, Copy, Debug, PartialEq)]
pub struct C {
    pub re: f64,
    pub im: f64,
}

impl C {
    pub fn new(re: f64, im: f64) -> C {
        C { re, im }
    }
    pub fn conj(self) -> C {
        C::new(self.re, -self.im)
    }
    pub fn norm2(self) -> f64 {
        self.re * self.re + self.im * self.im
    }
}
impl std::ops::Add for C {
    type Output = C;
    fn add(self, o: C) -> C {
        C::new(self.re + o.re, self.im + o.im)
    }
}
impl std::ops::Sub for C {
    type Output = C;
    fn sub(self, o: C) -> C {
        C::new(self.re - o.re, self.im - o.im)
    }
}
impl std::ops::Mul for C {
    type Output = C;
    fn mul(self, o: C) -> C {
        C::new(self.re * o.re - self.im * o.im, self.re * o.im + self.im * o.re)
    }
}
impl std::ops::Div for C {
    type Output = C;
    fn div(self, o: C) -> C {
        let d = o.norm2();
        let n = self * o.conj();
        C::new(n.re / d, n.im / d)
    }
}

/// root j (0 <= j < n) of x^n + 1 in this module's ordering: exp(i*pi*(2j+1)/n);
/// roots j and j + n/2 are opposite, and root j squared is root j of x^(n/2)+1.
fn zeta(n: usize, j: usize) -> C {
    let a = std::f64::consts::PI * (2 * j + 1) as f64 / n as f64;
    C::new(a.cos(), a.sin())
}

/// evaluations of the real polynomial a at the n roots of x^n+1
pub fn fft(a: &[f64]) -> Vec<C> {
    let n = a.len();
    if n == 1 {
        return vec![C::new(a[0], 0.0)];
    }
    let ae: Vec<f64> = a.iter().step_by(2).cloned().collect();
    let ao: Vec<f64> = a.iter().skip(1).step_by(2).cloned().collect();
    merge(&fft(&ae), &fft(&ao))
}

/// FFT(a) from FFT(a_even), FFT(a_odd)
pub fn merge(e: &[C], o: &[C]) -> Vec<C> {
    let h = e.len();
    let n = 2 * h;
    let mut f = vec![C::new(0.0, 0.0); n];
    for j in 0..h {
        let t = zeta(n, j) * o[j];
        f[j] = e[j] + t;
        f[j + h] = e[j] - t;
    }
    f
}

/// (FFT(a_even), FFT(a_odd)) from FFT(a)
pub fn split(f: &[C]) -> (Vec<C>, Vec<C>) {
    let n = f.len();
    let h = n / 2;
    let mut e = Vec::with_capacity(h);
    let mut o = Vec::with_capacity(h);
    for j in 0..h {
        e.push(C::new(0.5, 0.0) * (f[j] + f[j + h]));
        o.push(C::new(0.5, 0.0) * (f[j] - f[j + h]) / zeta(n, j));
    }
    (e, o)
}

pub fn ifft(f: &[C]) -> Vec<f64> {
    let n = f.len();
    if n == 1 {
        return vec![f[0].re];
    }
    let (e, o) = split(f);
    let ae = ifft(&e);
    let ao = ifft(&o);
    let mut a = vec![0.0; n];
    for i in 0..n / 2 {
        a[2 * i] = ae[i];
        a[2 * i + 1] = ao[i];
    }
    a
}

pub fn pmul(a: &[C], b: &[C]) -> Vec<C> {
    a.iter().zip(b).map(|(x, y)| *x * *y).collect()
}
pub fn padd(a: &[C], b: &[C]) -> Vec<C> {
    a.iter().zip(b).map(|(x, y)| *x + *y).collect()
}
pub fn psub(a: &[C], b: &[C]) -> Vec<C> {
    a.iter().zip(b).map(|(x, y)| *x - *y).collect()
}
pub fn pdiv(a: &[C], b: &[C]) -> Vec<C> {
    a.iter().zip(b).map(|(x, y)| *x / *y).collect()
}
pub fn padj(a: &[C]) -> Vec<C> {
    a.iter().map(|x| x.conj()).collect()
}

/// ffLDL tree (Algorithm 9). Leaves hold the diagonal values d (squared
/// Gram-Schmidt norms), not yet turned into standard deviations.
pub enum Tree {
    Node { l10: Vec<C>, left: Box<Tree>, right: Box<Tree> },
    Leaf(f64),
}

/// G = [[g00, g01], [adj(g01), g11]] in FFT representation
pub fn ffldl(g00: &[C], g01: &[C], g11: &[C]) -> Tree {
    let n = g00.len();
    let g10 = padj(g01);
    let l10 = pdiv(&g10, g00);
    // d11 = g11 - l10 * adj(l10) * g00
    let d11 = psub(g11, &pmul(&pmul(&l10, &padj(&l10)), g00));
    if n == 1 {
        return Tree::Node {
            l10,
            left: Box::new(Tree::Leaf(g00[0].re)),
            right: Box::new(Tree::Leaf(d11[0].re)),
        };
    }
    let (d00e, d00o) = split(g00);
    let (d11e, d11o) = split(&d11);
    Tree::Node {
        l10,
        left: Box::new(ffldl(&d00e, &d00o, &d00e)),
        right: Box::new(ffldl(&d11e, &d11o, &d11e)),
    }
}

/// Decompose the sampling noise (n0, n1) = (t - z) of one signature (FFT
/// representation at the root) into its 2n leaf coordinates, each multiplied by
/// the leaf's Gram-Schmidt norm sqrt(d): under the specification every returned
/// value has mean 0 and variance sigma^2. Leaves are visited in a fixed order
/// (left subtree first), the same order as `leaf_norms`.
pub fn noise_coordinates(tree: &Tree, n0: &[C], n1: &[C], out: &mut Vec<f64>) {
    match tree {
        Tree::Node { l10, left, right } => {
            // the left child samples around t0 + (t1 - z1) * l10, so its noise is n0 + n1*l10
            let left_noise = padd(n0, &pmul(n1, l10));
            if n0.len() == 1 {
                if let (Tree::Leaf(dl), Tree::Leaf(dr)) = (left.as_ref(), right.as_ref()) {
                    out.push(left_noise[0].re * dl.sqrt());
                    out.push(n1[0].re * dr.sqrt());
                }
                return;
            }
            let (le, lo) = split(&left_noise);
            noise_coordinates(left, &le, &lo, out);
            let (re, ro) = split(n1);
            noise_coordinates(right, &re, &ro, out);
        }
        Tree::Leaf(_) => {}
    }
}

pub fn leaf_norms(tree: &Tree, out: &mut Vec<f64>) {
    match tree {
        Tree::Node { left, right, .. } => {
            leaf_norms(left, out);
            leaf_norms(right, out);
        }
        Tree::Leaf(d) => out.push(d.sqrt()),
    }
}
