//! Reference integer Gaussian sampler: Algorithms 12 (BaseSampler), 13
//! (ApproxExp), 14 (BerExp), 15 (SamplerZ) of the specification, on integers.
//! The RCDT is taken from the reference C implementation's 24-bit limb table
//! and the ApproxExp constants from its `fpr_expm_p63`, not from falcon-rust.

pub const SIGMA_MAX: f64 = 1.8205;
pub const INV_2SIGMA_MAX_SQ: f64 = 1.0 / (2.0 * SIGMA_MAX * SIGMA_MAX);
pub const LN2: f64 = 0.69314718055994530941;

const DIST: [u32; 54] = [
    10745844, 3068844, 3741698, 5559083, 1580863, 8248194, 2260429, 13669192, 2736639, 708981,
    4421575, 10046180, 169348, 7122675, 4136815, 30538, 13063405, 7650655, 4132, 14505003,
    7826148, 417, 16768101, 11363290, 31, 8444042, 8086568, 1, 12844466, 265321, 0, 1232676,
    13644283, 0, 38047, 9111839, 0, 870, 6138264, 0, 14, 12545723, 0, 0, 3104126, 0, 0, 28824, 0,
    0, 198, 0, 0, 1,
];

pub fn rcdt() -> [u128; 18] {
    let mut t = [0u128; 18];
    for i in 0..18 {
        t[i] = ((DIST[3 * i] as u128) << 48) | ((DIST[3 * i + 1] as u128) << 24) | DIST[3 * i + 2] as u128;
    }
    t
}

/// Algorithm 12 on the 72-bit integer u.
pub fn base_sampler_u(u: u128) -> i16 {
    rcdt().iter().filter(|&&r| u < r).count() as i16
}

/// Algorithm 12 on 9 bytes, most significant first.
pub fn base_sampler(bytes: [u8; 9]) -> i16 {
    let mut u = 0u128;
    for b in bytes {
        u = (u << 8) | b as u128;
    }
    base_sampler_u(u)
}

const C: [u64; 13] = [
    0x00000004741183A3,
    0x00000036548CFC06,
    0x0000024FDCBF140A,
    0x0000171D939DE045,
    0x0000D00CF58F6F84,
    0x000680681CF796E3,
    0x002D82D8305B0FEA,
    0x011111110E066FD0,
    0x0555555555070F00,
    0x155555555581FF00,
    0x400000000002B400,
    0x7FFFFFFFFFFF4800,
    0x8000000000000000,
];

/// Algorithm 13: integer approximation of 2^63 * ccs * exp(-x), for
/// 0 <= x < ln 2 and 0 < ccs <= 1.
pub fn approx_exp(x: f64, ccs: f64) -> u64 {
    let two63 = 9223372036854775808.0f64;
    let mut y: u64 = C[0];
    let z: u64 = (x * two63).floor() as u64;
    for &c in C.iter().skip(1) {
        let zy = ((z as u128) * (y as u128)) >> 63;
        y = c.wrapping_sub(zy as u64);
    }
    let z2: u64 = (two63 * ccs).floor() as u64;
    (((z2 as u128) * (y as u128)) >> 63) as u64
}

/// the 64-bit comparand of Algorithm 14 for a given (s, r)
fn comparand(s: u64, r: f64, ccs: f64) -> u64 {
    let sh = s.min(63);
    let a = approx_exp(r, ccs) as u128;
    (((a << 1).wrapping_sub(1)) >> sh) as u64
}

/// The two float prologues seen in practice for s = floor(x / ln 2): division
/// (specification text, falcon-rust) and multiplication by 1/ln 2 (reference C).
/// They differ only when x is within an ulp of a multiple of ln 2.
pub fn prologues(x: f64) -> [(u64, f64); 2] {
    // a (rounding-induced) tiny negative x is treated as s = 0, r = x, which is
    // what both the reference C code (truncation) and a saturating cast do
    let s1 = (x / LN2).floor().max(0.0);
    let r1 = x - LN2 * s1;
    let s2 = (x * (1.0 / LN2)).floor().max(0.0);
    let r2 = x - LN2 * s2;
    [(s1 as u64, r1), (s2 as u64, r2)]
}

pub fn comparands(x: f64, ccs: f64) -> Vec<u64> {
    let p = prologues(x);
    let mut v = vec![comparand(p[0].0, p[0].1, ccs)];
    // the second prologue is only meaningful if r stays in range
    if p[1] != p[0] && p[1].1 >= 0.0 && p[1].1 < LN2 * 1.0000001 {
        v.push(comparand(p[1].0, p[1].1, ccs));
    }
    v
}

#[derive(Debug, Clone, Copy, PartialEq, Eq)]
pub enum Ber {
    True,
    False,
    /// all supplied bytes tie with the comparand: the specification would read
    /// a further byte that the 7-byte interface does not supply
    Tie,
}

/// Algorithm 14 against one comparand, lazily over the supplied bytes.
pub fn ber_exp_z(z: u64, bytes: &[u8]) -> Ber {
    let mut i = 64;
    for &b in bytes {
        i -= 8;
        let w = b as i32 - ((z >> i) & 0xff) as i32;
        if w != 0 {
            return if w < 0 { Ber::True } else { Ber::False };
        }
        if i == 0 {
            return Ber::False; // w == 0 after all eight bytes
        }
    }
    Ber::Tie
}

/// Set of outcomes the specification allows for (x, ccs, bytes): a singleton
/// unless the bytes tie completely or the float prologue is ambiguous.
pub fn ber_exp_allowed(x: f64, ccs: f64, bytes: &[u8]) -> (bool, bool) {
    // returns (true allowed, false allowed)
    let mut t = false;
    let mut f = false;
    for z in comparands(x, ccs) {
        match ber_exp_z(z, bytes) {
            Ber::True => t = true,
            Ber::False => f = true,
            Ber::Tie => {
                t = true;
                f = true;
            }
        }
    }
    (t, f)
}

/// depth of the tie between bytes and the (primary) comparand: number of leading equal bytes
pub fn tie_depth(x: f64, ccs: f64, bytes: &[u8]) -> usize {
    let z = comparands(x, ccs)[0];
    let mut d = 0;
    for (k, &b) in bytes.iter().enumerate() {
        if b as u64 == (z >> (56 - 8 * k)) & 0xff {
            d += 1;
        } else {
            break;
        }
    }
    d
}

/// Float prologue of Algorithm 15 in the operation order of the reference C
/// code (which is also falcon-rust's): isigma = 1/sigma', dss = isigma^2/2,
/// ccs = sigma_min * isigma.
pub struct Prologue {
    pub s: f64,
    pub r: f64,
    pub dss: f64,
    pub ccs: f64,
}

pub fn prologue(mu: f64, sigma: f64, sigma_min: f64) -> Prologue {
    let isigma = 1.0 / sigma;
    let dss = 0.5 * isigma * isigma;
    let s = mu.floor();
    let r = mu - s;
    let ccs = sigma_min * isigma;
    Prologue { s, r, dss, ccs }
}

/// x of Algorithm 15 for candidate (z0, b)
pub fn x_of(p: &Prologue, z0: i16, b: i16) -> (i16, f64) {
    let z = b + ((b << 1) - 1) * z0;
    let d = z as f64 - p.r;
    let x = d * d * p.dss - (z0 * z0) as f64 * INV_2SIGMA_MAX_SQ;
    (z, x)
}

/// One iteration of Algorithm 15 on 17 bytes (9 base, 1 sign, 7 Bernoulli).
/// Returns (candidate z without the floor(mu) shift, accept allowed, reject allowed).
pub struct IterOutcome {
    pub z0: i16,
    pub z: i16,
    pub x: f64,
    pub accept_allowed: bool,
    pub reject_allowed: bool,
    pub tie_depth: usize,
}

pub fn iteration(p: &Prologue, bytes: &[u8; 17]) -> IterOutcome {
    let mut b9 = [0u8; 9];
    b9.copy_from_slice(&bytes[..9]);
    let z0 = base_sampler(b9);
    let b = (bytes[9] & 1) as i16;
    let (z, x) = x_of(p, z0, b);
    // robustness against last-ulp differences in how x is computed: a decision
    // is only binding if it is the same for x and its float neighbours
    let mut t = false;
    let mut f = false;
    let ulp = |v: f64, k: i64| f64::from_bits((v.to_bits() as i64 + k) as u64);
    for k in [-2i64, -1, 0, 1, 2] {
        if x <= 0.0 && k != 0 {
            continue;
        }
        let xx = if x > 0.0 { ulp(x, k) } else { x };
        let (a, r) = ber_exp_allowed(xx, p.ccs, &bytes[10..17]);
        t |= a;
        f |= r;
    }
    IterOutcome {
        z0,
        z,
        x,
        accept_allowed: t,
        reject_allowed: f,
        tie_depth: tie_depth(x, p.ccs, &bytes[10..17]),
    }
}

/// Exact probability mass function of D_{Z, mu, sigma} on [lo, hi] (f64),
/// normalised over a window wide enough that the omitted mass is < 1e-30.
pub fn ideal_pmf(mu: f64, sigma: f64, lo: i64, hi: i64) -> Vec<f64> {
    let c = mu.round() as i64;
    let w = (sigma * 14.0).ceil() as i64 + 2;
    let rho = |z: i64| (-((z as f64 - mu).powi(2)) / (2.0 * sigma * sigma)).exp();
    let total: f64 = ((c - w)..=(c + w)).map(rho).sum();
    (lo..=hi).map(|z| rho(z) / total).collect()
}
