//! Baton scheduler: simulated caller threads are real OS threads (so that
//! `thread_local!`, and with it `thread_rng`, behaves as in production), but
//! exactly one of them runs at any time. Which one runs, and when it is
//! pre-empted, is decided by the run PRNG only, so an interleaving is a pure
//! function of the seed. Yield points are the draws from the entropy seams and
//! the operation boundaries of the workload.

use crate::guard::{guarded, Unwind};
use crate::rng::{hash_u64, Prng};
use std::cell::Cell;
use std::rc::Rc;
use std::collections::BTreeSet;
use std::sync::atomic::{AtomicU8, Ordering};
#[allow(unused_imports)]
use std::sync::atomic::AtomicBool;
use std::sync::{Arc, Condvar, Mutex};

pub struct Baton {
    inner: Mutex<Inner>,
    cv: Condvar,
    phases: Vec<AtomicU8>,
    /// kernel thread ids of the simulated threads (0 = not started yet)
    ktids: Vec<std::sync::atomic::AtomicI32>,
    /// set when the run had to leave deterministic mode (see `monitor`)
    free: std::sync::atomic::AtomicBool,
    done: std::sync::atomic::AtomicBool,
    /// mirror of `Inner::current` that a running thread can read without the lock (usize::MAX = nobody)
    owner: std::sync::atomic::AtomicUsize,
    lock_handoffs: std::sync::atomic::AtomicU64,
    /// thread i is inside the scheduler's own code (where it may wait for the scheduler's mutex): the
    /// monitor must not mistake that for blocking on a lock of the code under test
    in_sched: Vec<std::sync::atomic::AtomicBool>,
}

/// marks the current thread as being inside scheduler code for the guard's lifetime
struct InSched<'a>(&'a std::sync::atomic::AtomicBool);

impl<'a> InSched<'a> {
    fn new(b: &'a Baton, tid: usize) -> InSched<'a> {
        b.in_sched[tid].store(true, Ordering::SeqCst);
        InSched(&b.in_sched[tid])
    }
}

impl Drop for InSched<'_> {
    fn drop(&mut self) {
        self.0.store(false, Ordering::SeqCst);
    }
}

struct Inner {
    current: Option<usize>,
    alive: Vec<bool>,
    rng: Prng,
    /// pre-empt with probability 2^-k at a draw-level yield point; None = never
    switch_exp: Option<u32>,
    /// pre-empt with probability b/256 at an operation boundary
    boundary_switch: u32,
    steps: u64,
    switches: u64,
    trace: u64,
    overlap: BTreeSet<(u8, u8)>,
    /// aligned starts (see `SchedOpts`): threads parked at an operation boundary until a partner arrives
    waiting: Vec<bool>,
    opts: SchedOpts,
    aligned_pairs: u64,
    /// threads the monitor found asleep in the kernel while they held the baton (blocked on a lock of the
    /// code under test that a parked thread holds) and took the baton away from; cleared when the thread
    /// parks at its next yield point
    blocked: Vec<bool>,
}

/// Optional scheduling policy "aligned starts": a thread that reaches an operation boundary waits
/// there until another thread reaches one too (what a start barrier does in a stress test), and
/// both then run the first `dense_yields` yield points of their operations under a much higher
/// pre-emption probability (2^-dense_exp per yield point). Shared state is typically claimed,
/// looked up or published in the first steps of an operation; this puts two such prologues side by
/// side and interleaves them finely, instead of waiting for uniformly spread pre-emptions to do so.
#[derive(Clone, Copy, Debug, Default, PartialEq)]
pub struct SchedOpts {
    pub align: bool,
    pub dense_yields: u32,
    pub dense_exp: u32,
}

#[derive(Clone, Debug, Default)]
pub struct SchedStats {
    pub steps: u64,
    pub switches: u64,
    pub trace_hash: u64,
    pub overlap_states: Vec<(u8, u8)>,
    /// the baton holder blocked in the kernel on something a parked thread holds
    /// (a real lock taken by the code under test and pre-empted inside its
    /// critical section): the schedule was infeasible, the threads were released
    /// to run freely and the run is inconclusive (its results must be discarded)
    pub free_running: bool,
    /// operation starts that were aligned with another thread's operation start
    pub aligned_pairs: u64,
    /// times the baton was taken from a thread that blocked on a lock of the code under test
    pub lock_handoffs: u64,
}

pub struct Handle {
    baton: Arc<Baton>,
    pub tid: usize,
    gap: Cell<u64>,
    local_steps: Cell<u64>,
    my_switches: Cell<u64>,
    /// yield points left in the dense prologue of the current operation
    dense_left: Cell<u64>,
}

impl Baton {
    pub fn new(n: usize, seed: u64, switch_exp: Option<u32>, boundary_switch: u32, opts: SchedOpts) -> Arc<Baton> {
        Arc::new(Baton {
            inner: Mutex::new(Inner {
                current: None,
                alive: vec![true; n],
                rng: Prng::new(seed),
                switch_exp,
                boundary_switch,
                steps: 0,
                switches: 0,
                trace: 0,
                overlap: BTreeSet::new(),
                waiting: vec![false; n],
                opts,
                aligned_pairs: 0,
                blocked: vec![false; n],
            }),
            cv: Condvar::new(),
            phases: (0..n).map(|_| AtomicU8::new(0)).collect(),
            ktids: (0..n).map(|_| std::sync::atomic::AtomicI32::new(0)).collect(),
            free: std::sync::atomic::AtomicBool::new(false),
            done: std::sync::atomic::AtomicBool::new(false),
            owner: std::sync::atomic::AtomicUsize::new(usize::MAX),
            lock_handoffs: std::sync::atomic::AtomicU64::new(0),
            in_sched: (0..n).map(|_| std::sync::atomic::AtomicBool::new(true)).collect(),
        })
    }

    fn draw_gap(inner: &mut Inner) -> u64 {
        let e = inner.switch_exp;
        Self::draw_gap_exp(inner, e)
    }

    fn draw_gap_exp(inner: &mut Inner, exp: Option<u32>) -> u64 {
        match exp {
            None => u64::MAX,
            Some(0) => 1,
            Some(k) => {
                // geometric with success probability 2^-k
                let p = (0.5f64).powi(k as i32);
                let u = 1.0 - inner.rng.f64(); // (0,1]
                let g = (u.ln() / (1.0 - p).ln()).floor();
                if g >= 1e18 {
                    u64::MAX
                } else {
                    g as u64 + 1
                }
            }
        }
    }

    pub fn stats(&self) -> SchedStats {
        let g = self.inner.lock().unwrap();
        SchedStats {
            steps: g.steps,
            switches: g.switches,
            trace_hash: g.trace,
            overlap_states: g.overlap.iter().cloned().collect(),
            free_running: self.free.load(Ordering::SeqCst),
            aligned_pairs: g.aligned_pairs,
            lock_handoffs: self.lock_handoffs.load(Ordering::SeqCst),
        }
    }
}

impl Handle {
    fn acquire(&self) {
        let b = &self.baton;
        b.ktids[self.tid].store(unsafe { libc::syscall(libc::SYS_gettid) } as i32, Ordering::SeqCst);
        let mut g = b.inner.lock().unwrap();
        while g.current != Some(self.tid) && !b.free.load(Ordering::SeqCst) {
            g = b.cv.wait(g).unwrap();
        }
        self.gap.set(Baton::draw_gap(&mut g));
        drop(g);
        b.in_sched[self.tid].store(false, Ordering::SeqCst);
    }

    /// This thread is running although it does not hold the baton: the monitor took the baton away
    /// while the thread was blocked on a lock, and the lock has been released since. Park here, as a
    /// runnable thread, until the baton comes back.
    #[cold]
    fn reacquire(&self) {
        let b = &self.baton;
        let _mark = InSched::new(b, self.tid);
        let mut g = b.inner.lock().unwrap();
        g.blocked[self.tid] = false;
        g.steps += self.local_steps.replace(0);
        while g.current != Some(self.tid) && !b.free.load(Ordering::SeqCst) {
            g = b.cv.wait(g).unwrap();
        }
        self.redraw_gap(&mut g);
    }

    #[inline]
    fn holds_baton(&self) -> bool {
        self.baton.owner.load(Ordering::Relaxed) == self.tid
    }

    /// Hand the baton to `to` (≠ self) and wait until it comes back.
    fn switch_to<'a>(
        &self,
        mut g: std::sync::MutexGuard<'a, Inner>,
        to: usize,
    ) -> std::sync::MutexGuard<'a, Inner> {
        let b = &self.baton;
        g.switches += 1;
        self.my_switches.set(self.my_switches.get() + 1);
        g.trace = hash_u64(hash_u64(hash_u64(g.trace, g.steps), self.tid as u64), to as u64);
        let pa = b.phases[self.tid].load(Ordering::Relaxed);
        let pb = b.phases[to].load(Ordering::Relaxed);
        g.overlap.insert((pa, pb));
        g.current = Some(to);
        b.owner.store(to, Ordering::SeqCst);
        b.cv.notify_all();
        while g.current != Some(self.tid) && !b.free.load(Ordering::SeqCst) {
            g = b.cv.wait(g).unwrap();
        }
        g
    }

    /// another runnable thread; threads parked at an aligned start are not runnable unless `any`
    fn pick_other_from(g: &mut Inner, me: usize, any: bool) -> Option<usize> {
        let mut others: Vec<usize> = (0..g.alive.len()).filter(|&i| g.alive[i] && i != me && (any || !g.waiting[i]) && !g.blocked[i]).collect();
        if others.is_empty() && any {
            // only threads that were last seen blocked on a lock are left: one of them may have woken up
            others = (0..g.alive.len()).filter(|&i| g.alive[i] && i != me).collect();
        }
        if others.is_empty() {
            None
        } else {
            Some(others[g.rng.usize_below(others.len())])
        }
    }

    fn pick_other(g: &mut Inner, me: usize) -> Option<usize> {
        if g.opts.align {
            return Self::pick_other_from(g, me, false);
        }
        if g.blocked.iter().any(|&b| b) {
            return Self::pick_other_from(g, me, false);
        }
        let others: Vec<usize> = (0..g.alive.len()).filter(|&i| g.alive[i] && i != me).collect();
        if others.is_empty() {
            None
        } else {
            Some(others[g.rng.usize_below(others.len())])
        }
    }

    /// Draw-level yield point (called from inside the entropy seams).
    #[inline]
    pub fn yield_point(&self) {
        self.yield_point_n(1)
    }

    /// `n` yield points at once (the pre-emption decision is taken at the last of them)
    #[inline]
    pub fn yield_point_n(&self, n: u64) {
        if !self.holds_baton() && !self.baton.free.load(Ordering::Relaxed) {
            self.reacquire();
        }
        self.local_steps.set(self.local_steps.get() + n);
        let dl = self.dense_left.get();
        if dl > 0 {
            self.dense_left.set(dl.saturating_sub(n));
        }
        let gap = self.gap.get();
        if gap > n {
            self.gap.set(gap - n);
            return;
        }
        if self.baton.free.load(Ordering::Relaxed) {
            self.gap.set(u64::MAX);
            return;
        }
        let b = self.baton.clone();
        let _mark = InSched::new(&b, self.tid);
        let mut g = b.inner.lock().unwrap();
        g.steps += self.local_steps.replace(0);
        if let Some(to) = Self::pick_other(&mut g, self.tid) {
            g = self.switch_to(g, to);
        } else if g.opts.align && g.rng.chance(1, 4) {
            // only parked threads are left to switch to and no partner has shown up for them: let one go
            // (a thread with one long operation would otherwise keep every other thread parked)
            if let Some(to) = Self::pick_other_from(&mut g, self.tid, true) {
                g = self.switch_to(g, to);
            }
        }
        self.redraw_gap(&mut g);
    }

    fn redraw_gap(&self, g: &mut Inner) {
        if self.dense_left.get() > 0 {
            let e = Some(g.opts.dense_exp);
            self.gap.set(Baton::draw_gap_exp(g, e));
        } else {
            self.gap.set(Baton::draw_gap(g));
        }
    }

    /// inside the dense prologue of an aligned operation start?
    #[inline]
    pub fn dense_active(&self) -> bool {
        self.dense_left.get() > 0
    }

    /// Operation-boundary yield point.
    pub fn boundary(&self) {
        if self.baton.free.load(Ordering::Relaxed) {
            return;
        }
        if !self.holds_baton() {
            self.reacquire();
        }
        let b = self.baton.clone();
        let _mark = InSched::new(&b, self.tid);
        let mut g = b.inner.lock().unwrap();
        g.steps += self.local_steps.replace(0) + 1;
        if g.opts.align {
            let me = self.tid;
            let parked: Vec<usize> = (0..g.alive.len()).filter(|&i| i != me && g.alive[i] && g.waiting[i]).collect();
            if !parked.is_empty() {
                // a partner is waiting at its own operation start: release it, and toss who goes first
                let w = parked[g.rng.usize_below(parked.len())];
                g.waiting[w] = false;
                g.aligned_pairs += 1;
                self.dense_left.set(g.opts.dense_yields as u64);
                if g.rng.chance(1, 2) {
                    g = self.switch_to(g, w);
                }
                self.redraw_gap(&mut g);
            } else if let Some(to) = Self::pick_other_from(&mut g, me, false) {
                // wait here for a partner; resumed when one arrives (or when nobody else can run)
                g.waiting[me] = true;
                g = self.switch_to(g, to);
                g.waiting[me] = false;
                self.dense_left.set(g.opts.dense_yields as u64);
                self.redraw_gap(&mut g);
            }
            return;
        }
        let p = g.boundary_switch as u64;
        if p > 0 && g.rng.below(256) < p {
            if let Some(to) = Self::pick_other(&mut g, self.tid) {
                g = self.switch_to(g, to);
                self.gap.set(Baton::draw_gap(&mut g));
            }
        }
    }

    /// how often this thread has been pre-empted so far
    pub fn switches(&self) -> u64 {
        self.my_switches.get()
    }

    pub fn set_phase(&self, p: u8) {
        self.baton.phases[self.tid].store(p, Ordering::Relaxed);
    }

    fn finish(&self) {
        let b = &self.baton;
        b.in_sched[self.tid].store(true, Ordering::SeqCst);
        let mut g = b.inner.lock().unwrap();
        g.steps += self.local_steps.replace(0);
        g.alive[self.tid] = false;
        if g.current != Some(self.tid) {
            // finished while somebody else holds the baton (see `reacquire`): nothing to hand over
            b.cv.notify_all();
            return;
        }
        let next = match Self::pick_other(&mut g, self.tid) {
            Some(t) => Some(t),
            None => Self::pick_other_from(&mut g, self.tid, true),
        };
        if let Some(to) = next {
            g.trace = hash_u64(hash_u64(hash_u64(g.trace, g.steps), 0xF1), to as u64);
        }
        g.current = next;
        b.owner.store(next.unwrap_or(usize::MAX), Ordering::SeqCst);
        b.cv.notify_all();
    }
}

/// Run the given thread bodies under the baton. Returns, per thread, the value
/// or the unwind, plus the scheduler statistics.
pub fn run_threads<T: Send + 'static>(
    seed: u64,
    switch_exp: Option<u32>,
    boundary_switch: u32,
    bodies: Vec<Box<dyn FnOnce(Rc<Handle>) -> T + Send>>,
) -> (Vec<Result<T, Unwind>>, SchedStats) {
    run_threads_opts(seed, switch_exp, boundary_switch, SchedOpts::default(), bodies)
}

pub fn run_threads_opts<T: Send + 'static>(
    seed: u64,
    switch_exp: Option<u32>,
    boundary_switch: u32,
    opts: SchedOpts,
    bodies: Vec<Box<dyn FnOnce(Rc<Handle>) -> T + Send>>,
) -> (Vec<Result<T, Unwind>>, SchedStats) {
    let n = bodies.len();
    let baton = Baton::new(n, seed, switch_exp, boundary_switch, opts);
    let mut joins = Vec::new();
    for (tid, body) in bodies.into_iter().enumerate() {
        let b = baton.clone();
        let jh = std::thread::Builder::new()
            .stack_size(16 << 20)
            .spawn(move || {
                let h = Rc::new(Handle {
                    baton: b,
                    tid,
                    gap: Cell::new(u64::MAX),
                    local_steps: Cell::new(0),
                    my_switches: Cell::new(0),
                    dense_left: Cell::new(0),
                });
                h.acquire();
                let h2 = h.clone();
                let r = guarded(move || body(h2));
                h.finish();
                r
            })
            .expect("spawn");
        joins.push(jh);
    }
    {
        let mut g = baton.inner.lock().unwrap();
        let first = g.rng.usize_below(n);
        g.trace = hash_u64(g.trace, first as u64);
        g.current = Some(first);
        baton.owner.store(first, Ordering::SeqCst);
        baton.cv.notify_all();
    }
    // Monitor: the baton scheduler knows nothing about locks the code under test may take. If the
    // thread holding the baton blocks in the kernel (state S) because a parked thread was pre-empted
    // inside a critical section, the schedule is infeasible. That is an artefact of the scheduler,
    // not a defect: release all threads to run freely and mark the run inconclusive. A genuine
    // deadlock or hang does not resolve in free-running mode either and ends at the wall-clock limit
    // of the run's process.
    let mon = if n > 1 {
        let b = baton.clone();
        Some(std::thread::spawn(move || {
            let mut sleeping = 0u32;
            let mut last: Option<usize> = None;
            while !b.done.load(Ordering::SeqCst) {
                std::thread::sleep(std::time::Duration::from_millis(2));
                let cur = { b.inner.lock().unwrap().current };
                let state = cur.and_then(|c| {
                    let k = b.ktids[c].load(Ordering::SeqCst);
                    if k == 0 {
                        return None;
                    }
                    let st = std::fs::read_to_string(format!("/proc/self/task/{}/stat", k)).ok()?;
                    // "pid (comm) S ..." - the state follows the closing parenthesis
                    st.rsplit(')').next().and_then(|r| r.trim_start().chars().next())
                });
                let in_harness = cur.map(|c| b.in_sched[c].load(Ordering::SeqCst)).unwrap_or(true);
                if cur.is_some() && cur == last && state == Some('S') && !in_harness {
                    sleeping += 1;
                } else {
                    sleeping = 0;
                }
                last = cur;
                if sleeping >= 4 {
                    // The baton holder is asleep in the kernel: it blocked on a lock of the code under
                    // test that a parked thread holds. Treat the blocking as a yield: give the baton to
                    // another thread. The blocked thread wakes when the lock is released, runs until its
                    // next yield point and parks there (`reacquire`). Only if nobody else could run is
                    // the run released into free-running mode.
                    let mut g = b.inner.lock().unwrap();
                    let me = match g.current {
                        Some(c) if Some(c) == cur => c,
                        _ => {
                            sleeping = 0;
                            continue;
                        }
                    };
                    let cands: Vec<usize> = (0..g.alive.len()).filter(|&i| i != me && g.alive[i] && !g.blocked[i]).collect();
                    if cands.is_empty() {
                        b.free.store(true, Ordering::SeqCst);
                        b.cv.notify_all();
                        break;
                    }
                    let to = cands[g.rng.usize_below(cands.len())];
                    g.blocked[me] = true;
                    b.lock_handoffs.fetch_add(1, Ordering::SeqCst);
                    g.waiting[to] = false;
                    g.switches += 1;
                    g.trace = hash_u64(hash_u64(hash_u64(g.trace, g.steps), 0xB10C ^ me as u64), to as u64);
                    g.current = Some(to);
                    b.owner.store(to, Ordering::SeqCst);
                    b.cv.notify_all();
                    sleeping = 0;
                }
            }
        }))
    } else {
        None
    };
    let results = joins
        .into_iter()
        .map(|j| j.join().expect("simulated thread must not die outside guarded()"))
        .collect();
    baton.done.store(true, Ordering::SeqCst);
    if let Some(m) = mon {
        let _ = m.join();
    }
    (results, baton.stats())
}
