//! The threaded part of the simulated deployment: N caller threads (real OS
//! threads under the baton scheduler) executing sign / keygen / verify
//! operations against shared keys. A `WorldPlan` is generated from the run seed
//! before execution; execution is a pure function of the plan and the code
//! (except where a plan deliberately leaves the real `thread_rng` in place).

use crate::entropy::Mode;
use crate::guard::Unwind;
use crate::rng::{hex, unhex};
use crate::sched::{Handle, SchedStats};
use crate::variant::Variant;
use crate::world::{self, KeygenTrace, OpTrace, SignPlan};
use serde_json::{json, Value};
use std::rc::Rc;
use std::sync::Arc;

#[derive(Clone, Debug)]
pub enum Op {
    Sign {
        key: usize,
        msg: Vec<u8>,
        stream: u64,
        /// None = leave the real thread_rng in place (E5)
        mode: Option<Mode>,
        norm_rejects: u8,
        compress_fails: u8,
    },
    Keygen {
        seed: [u8; 32],
        /// install a simulator stream behind the ambient seam during keygen
        ambient: Option<u64>,
    },
    /// verify a fixed (msg, sig) under key `key`
    Verify { key: usize, msg: Vec<u8>, sig: Vec<u8> },
}

impl Op {
    pub fn to_json(&self) -> Value {
        match self {
            Op::Sign { key, msg, stream, mode, norm_rejects, compress_fails } => json!({
                "op": "sign", "key": key, "msg_hex": crate::rng::msg_hex(msg), "stream": stream,
                "mode": mode.as_ref().map(|m| m.to_json()).unwrap_or(json!({"kind": "E5"})),
                "norm_rejects": norm_rejects, "compress_fails": compress_fails}),
            Op::Keygen { seed, ambient } => json!({"op": "keygen", "seed_hex": hex(seed), "ambient": ambient}),
            Op::Verify { key, msg, sig } => json!({"op": "verify", "key": key, "msg_hex": crate::rng::msg_hex(msg), "sig_hex": hex(sig)}),
        }
    }
    pub fn from_json(v: &Value) -> Option<Op> {
        Some(match v.get("op")?.as_str()? {
            "sign" => Op::Sign {
                key: v.get("key")?.as_u64()? as usize,
                msg: crate::rng::msg_unhex(v.get("msg_hex")?.as_str()?)?,
                stream: v.get("stream")?.as_u64()?,
                mode: {
                    let m = v.get("mode")?;
                    if m.get("kind")?.as_str()? == "E5" {
                        None
                    } else {
                        Some(Mode::from_json(m)?)
                    }
                },
                norm_rejects: v.get("norm_rejects")?.as_u64()? as u8,
                compress_fails: v.get("compress_fails")?.as_u64()? as u8,
            },
            "keygen" => Op::Keygen {
                seed: unhex(v.get("seed_hex")?.as_str()?)?.try_into().ok()?,
                ambient: v.get("ambient").and_then(|a| a.as_u64()),
            },
            "verify" => Op::Verify {
                key: v.get("key")?.as_u64()? as usize,
                msg: crate::rng::msg_unhex(v.get("msg_hex")?.as_str()?)?,
                sig: unhex(v.get("sig_hex")?.as_str()?)?,
            },
            _ => return None,
        })
    }
    pub fn sign_plan(&self) -> Option<SignPlan> {
        if let Op::Sign { stream, mode, norm_rejects, compress_fails, .. } = self {
            let mut sp = SignPlan {
                stream_seed: *stream,
                mode: mode.clone(),
                fire: Vec::new(),
            };
            if *norm_rejects > 0 {
                sp.fire.push(("sign.norm_reject", (0..*norm_rejects as u64).collect()));
            }
            if *compress_fails > 0 {
                sp.fire.push(("sign.compress_fail", (0..*compress_fails as u64).collect()));
            }
            Some(sp)
        } else {
            None
        }
    }
}

#[derive(Clone, Debug)]
pub struct WorldPlan {
    pub n: usize,
    /// seeds of the shared keys (index = `key` in the ops)
    pub key_seeds: Vec<[u8; 32]>,
    pub sched_seed: u64,
    pub switch_exp: Option<u32>,
    pub boundary: u32,
    pub threads: Vec<Vec<Op>>,
    /// aligned operation starts with a dense prologue: (yield points, exponent); see `sched::SchedOpts`
    pub align: Option<(u32, u32)>,
}

impl WorldPlan {
    pub fn to_json(&self) -> Value {
        json!({
            "kind": "world",
            "n": self.n,
            "key_seeds_hex": self.key_seeds.iter().map(|s| hex(s)).collect::<Vec<_>>(),
            "sched_seed": self.sched_seed,
            "switch_exp": self.switch_exp,
            "boundary": self.boundary,
            "align": self.align.map(|(y, e)| vec![y, e]),
            "threads": self.threads.iter().map(|t| t.iter().map(|o| o.to_json()).collect::<Vec<_>>()).collect::<Vec<_>>(),
        })
    }
    pub fn from_json(v: &Value) -> Option<WorldPlan> {
        Some(WorldPlan {
            n: v.get("n")?.as_u64()? as usize,
            key_seeds: v
                .get("key_seeds_hex")?
                .as_array()?
                .iter()
                .map(|s| unhex(s.as_str()?)?.try_into().ok())
                .collect::<Option<Vec<[u8; 32]>>>()?,
            sched_seed: v.get("sched_seed")?.as_u64()?,
            switch_exp: v.get("switch_exp").and_then(|x| x.as_u64()).map(|x| x as u32),
            boundary: v.get("boundary")?.as_u64()? as u32,
            align: v.get("align").and_then(|a| a.as_array()).and_then(|a| Some((a.get(0)?.as_u64()? as u32, a.get(1)?.as_u64()? as u32))),
            threads: v
                .get("threads")?
                .as_array()?
                .iter()
                .map(|t| t.as_array()?.iter().map(Op::from_json).collect::<Option<Vec<_>>>())
                .collect::<Option<Vec<_>>>()?,
        })
    }
    pub fn sequential(&self) -> WorldPlan {
        let mut p = self.clone();
        p.switch_exp = None;
        p.boundary = 0;
        p.align = None;
        p
    }
    pub fn ops_total(&self) -> usize {
        self.threads.iter().map(|t| t.len()).sum()
    }
}

#[derive(Clone, Debug)]
pub enum OpResult {
    Sig { bytes: Vec<u8>, trace: OpTrace, preempted: u64 },
    Key { sk: Vec<u8>, pk: Vec<u8>, trace: KeygenTrace, preempted: u64 },
    Verified(bool),
    Unwound(Unwind),
}

impl OpResult {
    pub fn digest(&self) -> u64 {
        use crate::rng::hash_bytes;
        match self {
            OpResult::Sig { bytes, .. } => hash_bytes(1, bytes),
            OpResult::Key { sk, pk, .. } => hash_bytes(hash_bytes(2, sk), pk),
            OpResult::Verified(b) => 3 + *b as u64,
            OpResult::Unwound(u) => hash_bytes(5, u.signature().as_bytes()),
        }
    }
}

pub type Keys<V> = Arc<Vec<(<V as Variant>::Sk, <V as Variant>::Pk)>>;

fn thread_body<V: Variant>(ops: Vec<Op>, keys: Keys<V>, h: Rc<Handle>) -> Vec<OpResult> {
    // in a "deep" build every function entry of the code under test is a yield point
    let _deep = crate::deep::install(&h);
    let mut out = Vec::with_capacity(ops.len());
    for op in ops.iter() {
        h.set_phase(0);
        h.boundary();
        let before = h.switches();
        let r = match op {
            Op::Sign { key, msg, .. } => {
                let sp = op.sign_plan().unwrap();
                let (r, trace) = world::sign_sim::<V>(&keys[*key].0, msg, &sp, Some(h.clone()));
                match r {
                    Ok(sig) => OpResult::Sig {
                        bytes: V::sig_to_bytes(&sig),
                        trace,
                        preempted: h.switches() - before,
                    },
                    Err(u) => OpResult::Unwound(u),
                }
            }
            Op::Keygen { seed, ambient } => {
                let (r, trace) = world::keygen_sim::<V>(*seed, Some(h.clone()), *ambient);
                match r {
                    Ok((sk, pk)) => OpResult::Key {
                        sk: V::sk_to_bytes(&sk),
                        pk: V::pk_to_bytes(&pk),
                        trace,
                        preempted: h.switches() - before,
                    },
                    Err(u) => OpResult::Unwound(u),
                }
            }
            Op::Verify { key, msg, sig } => {
                h.set_phase(30);
                let r = crate::guard::guarded(|| match V::sig_from_bytes(sig) {
                    Ok(s) => V::verify(msg, &s, &keys[*key].1),
                    Err(_) => false,
                });
                match r {
                    Ok(b) => OpResult::Verified(b),
                    Err(u) => OpResult::Unwound(u),
                }
            }
        };
        out.push(r);
    }
    if std::env::var("VERIF_DEEP_DEBUG").is_ok() {
        eprintln!("thread {} ops {} function entries (all, counted) {:?}", h.tid, ops.len(), crate::deep::entries());
    }
    out
}

/// Execute a plan. `keys[i]` must be the key pair of `plan.key_seeds[i]`.
pub fn execute<V: Variant>(plan: &WorldPlan, keys: Keys<V>) -> (Vec<Result<Vec<OpResult>, Unwind>>, SchedStats) {
    let bodies: Vec<Box<dyn FnOnce(Rc<Handle>) -> Vec<OpResult> + Send>> = plan
        .threads
        .iter()
        .map(|ops| {
            let ops = ops.clone();
            let keys = keys.clone();
            Box::new(move |h: Rc<Handle>| thread_body::<V>(ops, keys, h)) as Box<dyn FnOnce(Rc<Handle>) -> Vec<OpResult> + Send>
        })
        .collect();
    let opts = match plan.align {
        Some((y, e)) => crate::sched::SchedOpts { align: true, dense_yields: y, dense_exp: e },
        None => crate::sched::SchedOpts::default(),
    };
    crate::sched::run_threads_opts(plan.sched_seed, plan.switch_exp, plan.boundary, opts, bodies)
}

/// Regenerate the shared keys of a plan from their seeds (replay path).
pub fn regenerate_keys<V: Variant>(plan: &WorldPlan) -> Result<Keys<V>, Unwind> {
    let mut v = Vec::new();
    for s in &plan.key_seeds {
        let (r, _) = world::keygen_sim::<V>(*s, None, None);
        v.push(r?);
    }
    Ok(Arc::new(v))
}
