//! The hostile channel / disk: turns pristine encodings taken from the key pool
//! (deep, realistic states) into deliveries for the decoders and the verifier,
//! by applying the fault catalogue and the Byzantine constructions.
//! Shared by C02 (verdicts), C03 (totality) and C06 (strictness), which differ
//! only in the oracle applied to each delivery.

use crate::byz;
use crate::faults::{Fault, FaultMix};
use crate::reference::codec::{self, Params};
use crate::rng::{hex, Prng};
use crate::variant::{Variant, V1024, V512};
use crate::world::KeyPool;
use serde_json::{json, Value};

#[derive(Clone, Copy, Debug, PartialEq, Eq, PartialOrd, Ord)]
pub enum Target {
    Pk,
    Sk,
    Sig,
    Verify,
}

impl Target {
    pub fn name(&self) -> &'static str {
        match self {
            Target::Pk => "pk",
            Target::Sk => "sk",
            Target::Sig => "sig",
            Target::Verify => "verify",
        }
    }
    pub fn parse(s: &str) -> Option<Target> {
        Some(match s {
            "pk" => Target::Pk,
            "sk" => Target::Sk,
            "sig" => Target::Sig,
            "verify" => Target::Verify,
            _ => return None,
        })
    }
}

#[derive(Clone, Debug)]
pub struct Delivery {
    /// variant (n) of the receiving decoder / verifier
    pub n: usize,
    pub target: Target,
    /// for Pk/Sk/Sig: the delivered bytes; for Verify: the signature bytes
    pub bytes: Vec<u8>,
    /// Verify only
    pub msg: Vec<u8>,
    pub pk: Vec<u8>,
    /// the pristine encoding the delivered bytes were derived from, if any
    pub pristine: Option<Vec<u8>>,
    pub faults: Vec<Fault>,
    /// coarse origin label: "clean", "faulted", "misdelivered", "Z2-…", "Z3-…"
    pub origin: String,
    pub detail: String,
}

impl Delivery {
    pub fn to_json(&self) -> Value {
        json!({
            "n": self.n,
            "target": self.target.name(),
            "bytes_hex": hex(&self.bytes),
            "msg_hex": crate::rng::msg_hex(&self.msg),
            "pk_hex": hex(&self.pk),
            "origin": self.origin,
            "detail": self.detail,
            "faults": self.faults.iter().map(|f| f.to_json()).collect::<Vec<_>>(),
        })
    }
    pub fn summary(&self) -> Value {
        json!({
            "n": self.n,
            "target": self.target.name(),
            "len": self.bytes.len(),
            "origin": self.origin,
            "detail": self.detail,
            "faults": self.faults.iter().map(|f| f.to_json()).collect::<Vec<_>>(),
            "head_hex": hex(&self.bytes[..self.bytes.len().min(24)]),
        })
    }
    pub fn from_json(v: &Value) -> Option<Delivery> {
        use crate::rng::unhex;
        Some(Delivery {
            n: v.get("n")?.as_u64()? as usize,
            target: Target::parse(v.get("target")?.as_str()?)?,
            bytes: unhex(v.get("bytes_hex")?.as_str()?)?,
            msg: crate::rng::msg_unhex(v.get("msg_hex")?.as_str()?)?,
            pk: unhex(v.get("pk_hex")?.as_str()?)?,
            pristine: None,
            faults: Vec::new(),
            origin: v.get("origin").and_then(|x| x.as_str()).unwrap_or("").to_string(),
            detail: v.get("detail").and_then(|x| x.as_str()).unwrap_or("").to_string(),
        })
    }
}

pub struct Pools {
    pub p512: KeyPool<V512>,
    pub p1024: KeyPool<V1024>,
}

impl Pools {
    pub fn build(seed: u64, n512: usize, n1024: usize, nsigs: usize, workers: usize) -> Pools {
        Pools {
            p512: KeyPool::build(seed, n512, nsigs, workers),
            p1024: KeyPool::build(seed ^ 0x1024, n1024, nsigs, workers),
        }
    }
    fn pick_pk(&self, rng: &mut Prng, n: usize) -> Vec<u8> {
        if n == 512 {
            rng.pick(&self.p512.keys).pk_bytes.clone()
        } else {
            rng.pick(&self.p1024.keys).pk_bytes.clone()
        }
    }
    fn pick_sk(&self, rng: &mut Prng, n: usize) -> Vec<u8> {
        if n == 512 {
            rng.pick(&self.p512.keys).sk_bytes.clone()
        } else {
            rng.pick(&self.p1024.keys).sk_bytes.clone()
        }
    }
    /// (msg, sig bytes, pk bytes of the signer)
    fn pick_sig(&self, rng: &mut Prng, n: usize) -> (Vec<u8>, Vec<u8>, Vec<u8>) {
        if n == 512 {
            let k = rng.pick(&self.p512.keys);
            let (m, s) = rng.pick(&k.sigs).clone();
            (m, s, k.pk_bytes.clone())
        } else {
            let k = rng.pick(&self.p1024.keys);
            let (m, s) = rng.pick(&k.sigs).clone();
            (m, s, k.pk_bytes.clone())
        }
    }
    pub fn usable(&self) -> bool {
        !self.p512.keys.is_empty()
            && !self.p1024.keys.is_empty()
            && self.p512.keys.iter().all(|k| !k.sigs.is_empty())
            && self.p1024.keys.iter().all(|k| !k.sigs.is_empty())
    }
}

fn other(n: usize) -> usize {
    if n == 512 {
        1024
    } else {
        512
    }
}

/// Which delivery families a property wants, with weights.
#[derive(Clone, Copy, Debug)]
pub struct Profile {
    pub w_pk: u64,
    pub w_sk: u64,
    pub w_sig: u64,
    pub w_verify: u64,
    pub w_z2: u64,
    pub w_z3: u64,
    /// Z4: honest body behind a ground salt (extreme hash-to-point stream)
    pub w_z4: u64,
    /// Z5: a public key computed from the message hash so that s1 = c - s2*h is whatever the attacker wants
    pub w_z5: u64,
    /// probability (in 1/256) that a delivery is clean (control group)
    pub clean: u64,
    /// Z7: probability (in 1/1024) that a delivery starts a cross-variant pair - an honest triple to one
    /// variant's verifier, followed at once by its zero-extension (512 -> 1024) or truncation (1024 -> 512)
    /// to the other variant's verifier
    pub z7: u64,
}

pub const PROFILE_C03: Profile = Profile {
    w_pk: 20,
    w_sk: 4,
    w_sig: 10,
    w_verify: 40,
    w_z2: 22,
    w_z3: 4,
    w_z4: 1,
    w_z5: 3,
    clean: 10,
    z7: 6,
};

pub const PROFILE_C06: Profile = Profile {
    w_pk: 40,
    w_sk: 12,
    w_sig: 30,
    w_verify: 0,
    w_z2: 0,
    w_z3: 18,
    w_z4: 0,
    w_z5: 0,
    clean: 24,
    z7: 0,
};

thread_local! {
    /// second half of a Z7 pair, handed out by the next call of `draw`
    static PENDING: std::cell::RefCell<Option<Delivery>> = const { std::cell::RefCell::new(None) };
}

/// Z7: an honest (msg, sig, pk) of one variant and its image in the other variant. 512 -> 1024: the
/// public key is h followed by 512 zero coefficients, the signature's s2 likewise (each zero costs 9
/// bits; the result fits the Falcon-1024 budget). 1024 -> 512: the first 512 coefficients of each.
/// The images are well-formed encodings that the specification simply judges on their merits (they are
/// almost always rejected); what they probe is state that an implementation generic over n keeps between
/// calls and keys by content rather than by (variant, content).
fn z7_pair(rng: &mut Prng, pools: &Pools) -> Option<(Delivery, Delivery)> {
    let from = if rng.chance(2, 3) { 512 } else { 1024 };
    let to = other(from);
    let (pf, pt) = (codec::params(from), codec::params(to));
    let (msg, sig, pk) = pools.pick_sig(rng, from);
    let h = codec::pk_decode(pf, &pk).ok()?;
    let frame = codec::sig_decode(pf, &sig).ok()?;
    let s2 = codec::decompress(frame.body, from).ok()?;
    let (h2, s22): (Vec<i64>, Vec<i64>) = if from == 512 {
        let mut a = h.clone();
        a.resize(1024, 0);
        let mut b = s2.clone();
        b.resize(1024, 0);
        (a, b)
    } else {
        (h[..512].to_vec(), s2[..512].to_vec())
    };
    let pk2 = codec::pk_encode(pt, &h2);
    let sig2 = codec::sig_encode(pt, frame.salt, &s22)?;
    let first = Delivery { n: from, target: Target::Verify, bytes: sig.clone(), msg: msg.clone(), pk: pk.clone(), pristine: Some(sig), faults: vec![], origin: "Z7-first".into(), detail: format!("honest verify{} that precedes its image in the other variant", from) };
    let second = Delivery {
        n: to,
        target: Target::Verify,
        bytes: sig2,
        msg,
        pk: pk2,
        pristine: None,
        faults: vec![],
        origin: "Z7-image".into(),
        detail: if from == 512 { "public key and s2 zero-extended from 512 to 1024 coefficients".into() } else { "public key and s2 truncated from 1024 to 512 coefficients".into() },
    };
    Some((first, second))
}

/// Generate one delivery.
pub fn draw(rng: &mut Prng, pools: &Pools, mix: &FaultMix, prof: &Profile) -> Delivery {
    if let Some(d) = PENDING.with(|p| p.borrow_mut().take()) {
        return d;
    }
    if prof.z7 > 0 && rng.below(1024) < prof.z7 {
        if let Some((a, b)) = z7_pair(rng, pools) {
            PENDING.with(|p| *p.borrow_mut() = Some(b));
            return a;
        }
    }
    let total = prof.w_pk + prof.w_sk + prof.w_sig + prof.w_verify + prof.w_z2 + prof.w_z3 + prof.w_z4 + prof.w_z5;
    let mut r = rng.below(total);
    let src_n = if rng.chance(1, 3) { 1024 } else { 512 };
    let p: Params = codec::params(src_n);
    // receiving variant: mostly the right one, sometimes the other (N8)
    let misdeliver = rng.chance(1, 10);
    let recv_n = if misdeliver { other(src_n) } else { src_n };
    let clean = rng.below(256) < prof.clean;

    let damage = |rng: &mut Prng, bytes: &mut Vec<u8>, body_from: usize, others: &[&[u8]]| -> Vec<Fault> {
        if clean {
            return Vec::new();
        }
        let k = 1 + rng.usize_below(mix.max_faults);
        let mut fs = Vec::new();
        for _ in 0..k {
            let f = mix.draw(rng, bytes.len(), body_from, others);
            f.apply(bytes);
            fs.push(f);
        }
        fs
    };
    let label = |clean: bool, mis: bool| -> String {
        match (clean, mis) {
            (true, false) => "clean".into(),
            (true, true) => "misdelivered".into(),
            (false, false) => "faulted".into(),
            (false, true) => "faulted+misdelivered".into(),
        }
    };

    if r < prof.w_pk {
        let pristine = pools.pick_pk(rng, src_n);
        let o = pools.pick_pk(rng, src_n);
        let mut b = pristine.clone();
        let faults = damage(rng, &mut b, 1, &[&o]);
        // N8h: the other variant's bytes, but with the header byte the receiving variant expects
        let relabelled = misdeliver && !b.is_empty() && rng.chance(1, 3);
        if relabelled {
            b[0] = codec::params(recv_n).logn;
        }
        // sometimes hand the bytes to the wrong decoder type
        let target = if rng.chance(1, 20) { *rng.pick(&[Target::Sk, Target::Sig]) } else { Target::Pk };
        return Delivery {
            n: recv_n,
            target,
            bytes: b,
            msg: vec![],
            pk: vec![],
            pristine: Some(pristine),
            faults,
            origin: if relabelled { format!("{}+relabelled", label(clean, misdeliver)) } else { label(clean, misdeliver) },
            detail: format!("pk{} -> {:?}{}{}", src_n, target, recv_n, if relabelled { " (header re-labelled for the receiving variant)" } else { "" }),
        };
    }
    r -= prof.w_pk;
    if r < prof.w_sk {
        let pristine = pools.pick_sk(rng, src_n);
        let o = pools.pick_sk(rng, src_n);
        let mut b = pristine.clone();
        let faults = damage(rng, &mut b, 1, &[&o]);
        let relabelled = misdeliver && !b.is_empty() && rng.chance(1, 3);
        if relabelled {
            b[0] = 0x50 | codec::params(recv_n).logn;
        }
        let target = if rng.chance(1, 20) { *rng.pick(&[Target::Pk, Target::Sig]) } else { Target::Sk };
        return Delivery {
            n: recv_n,
            target,
            bytes: b,
            msg: vec![],
            pk: vec![],
            pristine: Some(pristine),
            faults,
            origin: if relabelled { format!("{}+relabelled", label(clean, misdeliver)) } else { label(clean, misdeliver) },
            detail: format!("sk{} -> {:?}{}{}", src_n, target, recv_n, if relabelled { " (header re-labelled for the receiving variant)" } else { "" }),
        };
    }
    r -= prof.w_sk;
    if r < prof.w_sig {
        let (_m, pristine, _pk) = pools.pick_sig(rng, src_n);
        let (_m2, o, _pk2) = pools.pick_sig(rng, src_n);
        let mut b = pristine.clone();
        let faults = damage(rng, &mut b, 41, &[&o]);
        let relabelled = misdeliver && !b.is_empty() && rng.chance(1, 3);
        if relabelled {
            b[0] = codec::sig_header(codec::params(recv_n));
        }
        let target = if rng.chance(1, 20) { *rng.pick(&[Target::Pk, Target::Sk]) } else { Target::Sig };
        return Delivery {
            n: recv_n,
            target,
            bytes: b,
            msg: vec![],
            pk: vec![],
            pristine: Some(pristine),
            faults,
            origin: if relabelled { format!("{}+relabelled", label(clean, misdeliver)) } else { label(clean, misdeliver) },
            detail: format!("sig{} -> {:?}{}{}", src_n, target, recv_n, if relabelled { " (header re-labelled for the receiving variant)" } else { "" }),
        };
    }
    r -= prof.w_sig;
    if r < prof.w_verify {
        // damaged signature (and sometimes damaged key or another message) to the verifier
        let (m, pristine, pk) = pools.pick_sig(rng, src_n);
        let (_m2, o, _pk2) = pools.pick_sig(rng, src_n);
        let mut b = pristine.clone();
        let mut faults = damage(rng, &mut b, 41, &[&o]);
        let mut pkb = if rng.chance(1, 8) { pools.pick_pk(rng, src_n) } else { pk };
        if !clean && rng.chance(1, 6) {
            let f = mix.draw(rng, pkb.len(), 1, &[]);
            f.apply(&mut pkb);
            faults.push(f);
        }
        let msg = if rng.chance(1, 8) { crate::world::message(rng) } else { m };
        return Delivery {
            n: src_n,
            target: Target::Verify,
            bytes: b,
            msg,
            pk: pkb,
            pristine: Some(pristine),
            faults,
            origin: if clean { "clean".into() } else { "faulted".into() },
            detail: format!("verify{}", src_n),
        };
    }
    r -= prof.w_verify;
    if r < prof.w_z2 {
        let c = byz::craft_body(rng, p.n, p.sig_len - 41);
        let mut b = vec![codec::sig_header(p)];
        b.extend_from_slice(&rng.bytes(40));
        b.extend_from_slice(&c.body);
        let pk = pools.pick_pk(rng, src_n);
        return Delivery {
            n: src_n,
            target: Target::Verify,
            bytes: b,
            msg: crate::world::message(rng),
            pk,
            pristine: None,
            faults: vec![],
            origin: c.style.to_string(),
            detail: c.detail,
        };
    }
    r -= prof.w_z2;
    if r < prof.w_z4 {
        // short message: the grinding cost is one SHAKE call per trial
        let mlen = rng.usize_below(24);
        let msg = rng.bytes(mlen);
        let (salt, rej) = byz::grind_salt(rng, &msg, p.n, 1500);
        let (_m, honest, pk) = pools.pick_sig(rng, src_n);
        let mut b = honest.clone();
        if b.len() >= 41 {
            b[1..41].copy_from_slice(&salt);
        }
        return Delivery {
            n: src_n,
            target: Target::Verify,
            bytes: b,
            msg,
            pk,
            pristine: None,
            faults: vec![],
            origin: "Z4-salt-grind".to_string(),
            detail: format!("{} rejected samples in the hash-to-point stream", rej),
        };
    }
    r = r.saturating_sub(prof.w_z4);
    if prof.w_z5 > 0 && r < prof.w_z5 {
        let c = byz::chosen_s1_triple(rng, p);
        return Delivery {
            n: src_n,
            target: Target::Verify,
            bytes: c.sig,
            msg: c.msg,
            pk: c.pk,
            pristine: None,
            faults: vec![],
            origin: "Z5-chosen-s1".to_string(),
            detail: c.note,
        };
    }
    // Z3
    if rng.chance(2, 3) {
        let valid = pools.pick_pk(rng, src_n);
        let c = byz::craft_pk(rng, p, &valid);
        Delivery {
            n: recv_n,
            target: Target::Pk,
            bytes: c.bytes,
            msg: vec![],
            pk: vec![],
            pristine: Some(valid),
            faults: vec![],
            origin: c.style.to_string(),
            detail: c.detail,
        }
    } else {
        let valid = pools.pick_sk(rng, src_n);
        let c = byz::craft_sk(rng, p, &valid);
        Delivery {
            n: recv_n,
            target: Target::Sk,
            bytes: c.bytes,
            msg: vec![],
            pk: vec![],
            pristine: Some(valid),
            faults: vec![],
            origin: c.style.to_string(),
            detail: c.detail,
        }
    }
}

/// What the real node did with a delivery.
#[derive(Clone, Debug, PartialEq)]
pub enum NodeResult {
    /// decoder: Ok, with the re-encoding of the decoded object
    Decoded { reencoded: Vec<u8> },
    /// decoder: Err(kind)
    Rejected { error: String },
    /// verifier: one of the two inputs did not decode (verify not called)
    VerifyNotReached { sig_ok: bool, pk_ok: bool },
    Verdict(bool),
}

/// Hand a delivery to the real falcon-rust node of variant V (no guard here).
pub fn execute<V: Variant>(d: &Delivery) -> NodeResult {
    match d.target {
        Target::Pk => match V::pk_from_bytes(&d.bytes) {
            Ok(k) => NodeResult::Decoded {
                reencoded: V::pk_to_bytes(&k),
            },
            Err(e) => NodeResult::Rejected { error: e },
        },
        Target::Sk => match V::sk_from_bytes(&d.bytes) {
            Ok(k) => NodeResult::Decoded {
                reencoded: V::sk_to_bytes(&k),
            },
            Err(e) => NodeResult::Rejected { error: e },
        },
        Target::Sig => match V::sig_from_bytes(&d.bytes) {
            Ok(k) => NodeResult::Decoded {
                reencoded: V::sig_to_bytes(&k),
            },
            Err(e) => NodeResult::Rejected { error: e },
        },
        Target::Verify => {
            let s = V::sig_from_bytes(&d.bytes);
            let k = V::pk_from_bytes(&d.pk);
            match (s, k) {
                (Ok(s), Ok(k)) => NodeResult::Verdict(V::verify(&d.msg, &s, &k)),
                (s, k) => NodeResult::VerifyNotReached {
                    sig_ok: s.is_ok(),
                    pk_ok: k.is_ok(),
                },
            }
        }
    }
}

pub fn execute_dyn(d: &Delivery) -> NodeResult {
    if d.n == 512 {
        execute::<V512>(d)
    } else {
        execute::<V1024>(d)
    }
}
