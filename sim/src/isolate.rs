//! Process-level isolation. Every simulated run executes in its own forked
//! child process, so that state the code under test may keep outside the
//! explicit arguments (statics, per-key caches, thread-locals) can never leak
//! from one run into another, and a run is exactly what its replay file says.
//! It also contains what in-process unwinding cannot: aborts, stack overflows
//! and runs that stop making progress without touching a seam (wall-clock
//! limit, generous, last resort).
//!
//! Two levels: the (single-threaded) check process forks `w` worker processes;
//! workers take items from a shared counter and fork one child per item. A
//! child inherits the prepared context (key pool, oracles) copy-on-write and
//! returns its result as bytes over a pipe. Workers hand their results to the
//! check process through files in a scratch directory.

use std::collections::BTreeMap;
use std::io::{Read, Write};
use std::os::unix::io::FromRawFd;

#[derive(Debug, Clone, PartialEq)]
pub enum ChildFailure {
    /// killed by a signal (abort, segfault, stack overflow)
    Signal(i32),
    /// exited with a non-zero status without delivering a result
    Exit(i32),
    /// exceeded the wall-clock limit and was killed
    Timeout(u64),
    /// unwound outside any guarded call; `in_repo` tells whether the panic site is in the code under test
    Panic { location: String, message: String, in_repo: bool },
    Harness(String),
}

impl ChildFailure {
    pub fn describe(&self) -> String {
        match self {
            ChildFailure::Signal(s) => format!("process killed by signal {}", s),
            ChildFailure::Exit(c) => format!("process exited with status {}", c),
            ChildFailure::Timeout(t) => format!("no termination within the wall-clock limit of {} s", t),
            ChildFailure::Panic { location, .. } => format!("unwind at {}", location),
            ChildFailure::Harness(e) => format!("harness: {}", e),
        }
    }
}

pub fn run_timeout_s() -> u64 {
    std::env::var("VERIF_RUN_TIMEOUT_S").ok().and_then(|s| s.parse().ok()).unwrap_or(900)
}

/// Run `f` in a forked child; its return bytes come back over a pipe.
/// Must be called from a process that is single-threaded at this moment.
pub fn isolated(f: impl FnOnce() -> Vec<u8>, timeout_s: u64) -> Result<Vec<u8>, ChildFailure> {
    unsafe {
        let mut fds = [0i32; 2];
        if libc::pipe(fds.as_mut_ptr()) != 0 {
            return Err(ChildFailure::Harness("pipe failed".into()));
        }
        let _ = std::io::stdout().flush();
        let _ = std::io::stderr().flush();
        let pid = libc::fork();
        if pid < 0 {
            libc::close(fds[0]);
            libc::close(fds[1]);
            return Err(ChildFailure::Harness("fork failed".into()));
        }
        if pid == 0 {
            // child
            libc::close(fds[0]);
            crate::guard::install_hook();
            let r = std::panic::catch_unwind(std::panic::AssertUnwindSafe(f));
            let (tag, bytes): (u8, Vec<u8>) = match r {
                Ok(bytes) => (0, bytes),
                Err(_) => {
                    let (loc, msg) = crate::guard::last_panic().unwrap_or_else(|| ("?".into(), "?".into()));
                    (1, format!("{}\u{0}{}", loc, msg).into_bytes())
                }
            };
            let mut w = std::fs::File::from_raw_fd(fds[1]);
            let ok = w.write_all(&((bytes.len() + 1) as u64).to_le_bytes()).is_ok() && w.write_all(&[tag]).is_ok() && w.write_all(&bytes).is_ok() && w.flush().is_ok();
            drop(w);
            libc::_exit(if ok { 0 } else { 111 });
        }
        // parent
        libc::close(fds[1]);
        let mut buf: Vec<u8> = Vec::new();
        let mut chunk = vec![0u8; 1 << 16];
        let start = std::time::Instant::now();
        let mut timed_out = false;
        loop {
            let mut pfd = libc::pollfd {
                fd: fds[0],
                events: libc::POLLIN,
                revents: 0,
            };
            let elapsed = start.elapsed().as_secs();
            if elapsed >= timeout_s {
                timed_out = true;
                break;
            }
            let wait_ms = (((timeout_s - elapsed) * 1000).min(5000)) as i32;
            let pr = libc::poll(&mut pfd, 1, wait_ms);
            if pr < 0 {
                let e = std::io::Error::last_os_error();
                if e.kind() == std::io::ErrorKind::Interrupted {
                    continue;
                }
                break;
            }
            if pr == 0 {
                continue;
            }
            let n = libc::read(fds[0], chunk.as_mut_ptr() as *mut libc::c_void, chunk.len());
            if n < 0 {
                let e = std::io::Error::last_os_error();
                if e.kind() == std::io::ErrorKind::Interrupted {
                    continue;
                }
                break;
            }
            if n == 0 {
                break;
            }
            buf.extend_from_slice(&chunk[..n as usize]);
        }
        libc::close(fds[0]);
        if timed_out {
            libc::kill(pid, libc::SIGKILL);
        }
        let mut status = 0i32;
        loop {
            let r = libc::waitpid(pid, &mut status, 0);
            if r < 0 && std::io::Error::last_os_error().kind() == std::io::ErrorKind::Interrupted {
                continue;
            }
            break;
        }
        if timed_out {
            return Err(ChildFailure::Timeout(timeout_s));
        }
        if libc::WIFSIGNALED(status) {
            return Err(ChildFailure::Signal(libc::WTERMSIG(status)));
        }
        let code = if libc::WIFEXITED(status) { libc::WEXITSTATUS(status) } else { -1 };
        if code != 0 {
            return Err(ChildFailure::Exit(code));
        }
        if buf.len() < 8 {
            return Err(ChildFailure::Harness("short result".into()));
        }
        let len = u64::from_le_bytes(buf[..8].try_into().unwrap()) as usize;
        if buf.len() != 8 + len || len == 0 {
            return Err(ChildFailure::Harness("truncated result".into()));
        }
        if buf[8] == 1 {
            let text = String::from_utf8_lossy(&buf[9..]).to_string();
            let mut it = text.splitn(2, '\u{0}');
            let location = it.next().unwrap_or("?").to_string();
            let message = it.next().unwrap_or("").to_string();
            let in_repo = location.starts_with("falcon-rust/");
            return Err(ChildFailure::Panic { location, message, in_repo });
        }
        Ok(buf[9..].to_vec())
    }
}

fn scratch_dir() -> std::path::PathBuf {
    let base = std::env::var("VERIF_SCRATCH").map(std::path::PathBuf::from).unwrap_or_else(|_| crate::report::verif_root().join("sim").join("target").join("scratch"));
    let d = base.join(format!("job-{}-{}", std::process::id(), {
        static mut N: u32 = 0;
        unsafe {
            N += 1;
            N
        }
    }));
    let _ = std::fs::create_dir_all(&d);
    d
}

/// Map `f` over `items` with `w` worker processes, each item in its own child
/// process. Results are keyed by item. The calling process must be
/// single-threaded. Optional deadline (seconds) stops handing out new items.
pub fn fork_map(items: &[u64], w: usize, deadline_s: Option<f64>, f: &(dyn Fn(u64) -> Vec<u8> + Sync)) -> BTreeMap<u64, Result<Vec<u8>, ChildFailure>> {
    let w = w.max(1).min(items.len().max(1));
    let dir = scratch_dir();
    let timeout = run_timeout_s();
    let t0 = std::time::Instant::now();
    let mut pids = Vec::new();
    let _ = std::io::stdout().flush();
    let _ = std::io::stderr().flush();
    // work distribution: a counter in shared memory (every item runs in its own
    // process anyway, so which worker forks it has no influence on the result)
    let counter: &std::sync::atomic::AtomicUsize = unsafe {
        let m = libc::mmap(
            std::ptr::null_mut(),
            4096,
            libc::PROT_READ | libc::PROT_WRITE,
            libc::MAP_SHARED | libc::MAP_ANONYMOUS,
            -1,
            0,
        );
        if m == libc::MAP_FAILED {
            eprintln!("HARNESS-ERROR: mmap failed");
            return BTreeMap::new();
        }
        &*(m as *const std::sync::atomic::AtomicUsize)
    };
    counter.store(0, std::sync::atomic::Ordering::SeqCst);
    for p in 0..w {
        let pid = unsafe { libc::fork() };
        if pid < 0 {
            eprintln!("HARNESS-ERROR: fork failed");
            break;
        }
        if pid == 0 {
            // worker process p
            let path = dir.join(format!("w{}.bin", p));
            let mut out = std::io::BufWriter::new(std::fs::File::create(&path).expect("scratch file"));
            loop {
                let i = counter.fetch_add(1, std::sync::atomic::Ordering::SeqCst);
                if i >= items.len() {
                    break;
                }
                if let Some(d) = deadline_s {
                    if t0.elapsed().as_secs_f64() > d {
                        break;
                    }
                }
                let item = items[i];
                let r = isolated(|| f(item), timeout);
                let (tag, payload): (u8, Vec<u8>) = match r {
                    Ok(b) => (0, b),
                    Err(ChildFailure::Signal(s)) => (1, (s as i64).to_le_bytes().to_vec()),
                    Err(ChildFailure::Exit(c)) => (2, (c as i64).to_le_bytes().to_vec()),
                    Err(ChildFailure::Timeout(t)) => (3, (t as i64).to_le_bytes().to_vec()),
                    Err(ChildFailure::Harness(e)) => (4, e.into_bytes()),
                    Err(ChildFailure::Panic { location, message, in_repo }) => (if in_repo { 5 } else { 6 }, format!("{}\u{0}{}", location, message).into_bytes()),
                };
                let _ = out.write_all(&item.to_le_bytes());
                let _ = out.write_all(&[tag]);
                let _ = out.write_all(&(payload.len() as u64).to_le_bytes());
                let _ = out.write_all(&payload);
            }
            let _ = out.flush();
            drop(out);
            unsafe { libc::_exit(0) };
        }
        pids.push(pid);
    }
    for pid in pids {
        let mut status = 0i32;
        unsafe {
            loop {
                let r = libc::waitpid(pid, &mut status, 0);
                if r < 0 && std::io::Error::last_os_error().kind() == std::io::ErrorKind::Interrupted {
                    continue;
                }
                break;
            }
        }
    }
    let mut res = BTreeMap::new();
    for p in 0..w {
        let path = dir.join(format!("w{}.bin", p));
        let mut data = Vec::new();
        if let Ok(mut fh) = std::fs::File::open(&path) {
            let _ = fh.read_to_end(&mut data);
        }
        let mut pos = 0usize;
        while pos + 17 <= data.len() {
            let item = u64::from_le_bytes(data[pos..pos + 8].try_into().unwrap());
            let tag = data[pos + 8];
            let len = u64::from_le_bytes(data[pos + 9..pos + 17].try_into().unwrap()) as usize;
            pos += 17;
            if pos + len > data.len() {
                break;
            }
            let payload = data[pos..pos + len].to_vec();
            pos += len;
            let num = || i64::from_le_bytes(payload[..8].try_into().unwrap_or([0; 8]));
            let r = match tag {
                0 => Ok(payload),
                1 => Err(ChildFailure::Signal(num() as i32)),
                2 => Err(ChildFailure::Exit(num() as i32)),
                3 => Err(ChildFailure::Timeout(num() as u64)),
                5 | 6 => {
                    let text = String::from_utf8_lossy(&payload).to_string();
                    let mut it = text.splitn(2, '\u{0}');
                    Err(ChildFailure::Panic { location: it.next().unwrap_or("?").to_string(), message: it.next().unwrap_or("").to_string(), in_repo: tag == 5 })
                }
                _ => Err(ChildFailure::Harness(String::from_utf8_lossy(&payload).to_string())),
            };
            res.insert(item, r);
        }
    }
    let _ = std::fs::remove_dir_all(&dir);
    res
}
