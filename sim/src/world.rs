//! Building blocks of the simulated deployment: signing with simulator-owned
//! entropy, guarded key generation with a step bound, and the per-invocation
//! key pool.

use crate::entropy::{Installed, Mode, Shared, SimStream};
use crate::guard::{guarded, Unwind};
use crate::rng::{mix, Prng};
use crate::sched::Handle;
use crate::variant::Variant;
use std::cell::RefCell;
use std::collections::BTreeMap;
use std::rc::Rc;

/// ≈ 40x the draws of a typical sign call (512: ~25k, 1024: ~50k)
pub fn sign_cap(n: usize) -> u64 {
    (n as u64) * 2 * 17 * 60
}

/// Bounded liveness of keygen. One ntru_gen attempt draws ≈ 8192 * ~24 bytes and
/// succeeds with probability ≈ 1/13 (Falcon-512) resp. ≈ 1/24 (Falcon-1024)
/// (measured: 48 seeds each, maxima 47 and 98 attempts), so the number of
/// attempts is geometric; 3000 attempts are exceeded with probability < e^-120
/// on a correct tree. (A first bound of 200 attempts was a false-alarm source:
/// (23/24)^200 = 2e-4 per Falcon-1024 keygen, found by the multi-seed soak.)
pub const KEYGEN_MAX_ATTEMPTS: u64 = 3000;
pub const KEYGEN_CAP: u64 = 8192 * 30 * KEYGEN_MAX_ATTEMPTS;

#[derive(Clone, Debug, Default)]
pub struct OpTrace {
    pub draws: u64,
    pub probes: BTreeMap<&'static str, u64>,
    pub fired: BTreeMap<&'static str, u64>,
    pub landed: BTreeMap<&'static str, u64>,
    pub sigma_out_of_range: u64,
    pub sampler_calls: u64,
    pub max_tie_depth: usize,
}

#[derive(Clone, Debug, Default)]
pub struct SignPlan {
    pub stream_seed: u64,
    pub mode: Option<Mode>,
    /// buggify: site -> visit indices at which to fire
    pub fire: Vec<(&'static str, Vec<u64>)>,
}

impl SignPlan {
    pub fn uniform(seed: u64) -> Self {
        SignPlan {
            stream_seed: seed,
            mode: Some(Mode::Uniform),
            fire: Vec::new(),
        }
    }
}

/// `sign` with the ambient entropy replaced by a simulator stream (or, with
/// `mode == None`, the real `thread_rng` left in place).
pub fn sign_sim<V: Variant>(
    sk: &V::Sk,
    msg: &[u8],
    plan: &SignPlan,
    handle: Option<Rc<Handle>>,
) -> (Result<V::Sig, Unwind>, OpTrace) {
    let shared = Shared::new();
    {
        let mut s = shared.borrow_mut();
        s.begin_op();
        s.expected_calls = 2 * V::N as u64;
        for (site, at) in &plan.fire {
            s.fire_at.insert(site, at.iter().cloned().collect());
        }
    }
    let stream = plan.mode.as_ref().map(|m| {
        Rc::new(RefCell::new(SimStream::new(
            plan.stream_seed,
            m.clone(),
            shared.clone(),
            handle.clone(),
            sign_cap(V::N),
        )))
    });
    let r = {
        let inst = Installed::observer(shared.clone(), handle.clone());
        let _inst = match &stream {
            Some(s) => inst.with_stream(s.clone()),
            None => inst,
        };
        guarded(|| V::sign(msg, sk))
    };
    let s = shared.borrow();
    let tr = OpTrace {
        draws: stream.as_ref().map(|s| s.borrow().draws).unwrap_or(0),
        probes: s.probes.clone(),
        fired: s.fired.clone(),
        landed: s.landed.clone(),
        sigma_out_of_range: s.sigma_out_of_range,
        sampler_calls: s.sampler_calls + if s.cur_params.is_some() { 1 } else { 0 },
        max_tie_depth: s.max_tie_depth,
    };
    (r, tr)
}

#[derive(Clone, Debug, Default)]
pub struct KeygenTrace {
    pub seed_draws: u64,
    pub attempts: u64,
    pub ambient_draws: u64,
    /// candidates rejected because f or g did not fit its field
    pub reject_fg_range: u64,
    /// candidates rejected because F or G did not fit eight bits
    pub reject_cap_range: u64,
}

/// `keygen(seed)` under a draw bound; `ambient` optionally installs a stream
/// behind the ambient seam (key generation must not touch it).
pub fn keygen_sim<V: Variant>(
    seed: [u8; 32],
    handle: Option<Rc<Handle>>,
    ambient_seed: Option<u64>,
) -> (Result<(V::Sk, V::Pk), Unwind>, KeygenTrace) {
    keygen_sim_route::<V>(seed, handle, ambient_seed, 0)
}

/// route 0: `keygen(seed)`; route 1: `SecretKey::generate_from_seed(seed)` followed by
/// `PublicKey::from_secret_key` (the two calls `keygen` is documented to consist of)
pub fn keygen_sim_route<V: Variant>(
    seed: [u8; 32],
    handle: Option<Rc<Handle>>,
    ambient_seed: Option<u64>,
    route: u8,
) -> (Result<(V::Sk, V::Pk), Unwind>, KeygenTrace) {
    let shared = Shared::new();
    {
        let mut s = shared.borrow_mut();
        s.begin_op();
        s.seed_stream_cap = KEYGEN_CAP;
    }
    let stream = ambient_seed.map(|a| {
        let mut st = SimStream::new(a, Mode::Uniform, shared.clone(), handle.clone(), KEYGEN_CAP);
        st.what = "keygen drew from the ambient seam beyond its bound";
        Rc::new(RefCell::new(st))
    });
    let r = {
        let inst = Installed::observer(shared.clone(), handle.clone());
        let _inst = match &stream {
            Some(s) => inst.with_stream(s.clone()),
            None => inst,
        };
        guarded(|| {
            if route == 0 {
                V::keygen(seed)
            } else {
                let sk = V::sk_from_seed(seed);
                let pk = V::pk_from_sk(&sk);
                (sk, pk)
            }
        })
    };
    let s = shared.borrow();
    let tr = KeygenTrace {
        seed_draws: s.seed_stream_draws,
        attempts: s.probe_count("ntru_gen.attempt"),
        reject_fg_range: s.probe_count("ntru_gen.reject_fg_range"),
        reject_cap_range: s.probe_count("ntru_gen.reject_FG_range"),
        ambient_draws: stream.as_ref().map(|s| s.borrow().draws).unwrap_or(0),
    };
    (r, tr)
}

/// One key of the per-invocation pool. Pure data: the check process itself
/// never executes the code under test; keys are generated in isolated child
/// processes and decoded (from_bytes) inside each run's own process.
pub struct KeyEntry<V: Variant> {
    pub seed: [u8; 32],
    pub sk_bytes: Vec<u8>,
    pub pk_bytes: Vec<u8>,
    /// a few honest signatures (message, signature bytes)
    pub sigs: Vec<(Vec<u8>, Vec<u8>)>,
    _v: std::marker::PhantomData<V>,
}

impl<V: Variant> KeyEntry<V> {
    /// decode the key pair inside the current (run) process
    pub fn load(&self) -> Result<(V::Sk, V::Pk), String> {
        let sk = guarded(|| V::sk_from_bytes(&self.sk_bytes)).map_err(|u| u.signature())??;
        let pk = guarded(|| V::pk_from_bytes(&self.pk_bytes)).map_err(|u| u.signature())??;
        Ok((sk, pk))
    }
}

pub struct KeyPool<V: Variant> {
    pub keys: Vec<KeyEntry<V>>,
    /// keygen failures while building the pool, by seed
    pub failures: Vec<([u8; 32], String)>,
}

pub fn message(rng: &mut Prng) -> Vec<u8> {
    // lengths include 0, 1, the SHAKE-256 rate boundary once the 40-byte salt is
    // prepended (136 - 40 = 96), and larger
    // rarely a very long message (1 MiB): thousands of SHAKE blocks before the first coefficient
    if rng.chance(1, 96) {
        return rng.bytes(1 << 20);
    }
    // lengths around the powers of two at which a chunked or length-limited hashing front end would
    // change its behaviour (2^16, 2^17, 2^20), and - very rarely - around 2^24 and 2^25; these messages
    // are one repeated byte (the content of a long message is not what matters, and plans stay small)
    if rng.chance(1, 64) {
        let len = *rng.pick(&[65_535usize, 65_536, 65_537, 100_000, 131_071, 131_073, (1 << 20) - 1, (1 << 20) + 1]);
        return vec![rng.byte(); len];
    }
    if rng.chance(1, 3000) {
        let len = *rng.pick(&[(1usize << 24) - 41, (1 << 24) - 40, (1 << 24) - 39, (1 << 24) + 1, (1 << 25) + 3]);
        return vec![rng.byte(); len];
    }
    let len = match rng.below(12) {
        0 => 0,
        1 => 1,
        2 => 95,
        3 => 96,
        4 => 97,
        5 => 4096,
        6 => 232,
        _ => rng.usize_below(300),
    };
    rng.bytes(len)
}

impl<V: Variant> KeyPool<V> {
    /// Build `count` keys from seeds derived from `pool_seed`, with `nsigs`
    /// honest signatures each; every key in its own child process.
    pub fn build(pool_seed: u64, count: usize, nsigs: usize, workers: usize) -> KeyPool<V> {
        use crate::rng::{hex, unhex};
        let items: Vec<u64> = (0..count as u64).collect();
        let seed_of = |i: u64| {
            let mut rng = Prng::new(mix(&[pool_seed, V::N as u64, i]));
            (rng.seed32(), rng)
        };
        let job = |i: u64| -> Vec<u8> {
            let (seed, mut rng) = seed_of(i);
            let (r, _tr) = keygen_sim::<V>(seed, None, None);
            let v = match r {
                Err(u) => serde_json::json!({"err": u.signature()}),
                Ok((sk, pk)) => {
                    let mut sigs = Vec::new();
                    for j in 0..nsigs {
                        let msg = message(&mut rng);
                        let plan = SignPlan::uniform(mix(&[pool_seed, i, j as u64, 7]));
                        if let (Ok(sig), _) = sign_sim::<V>(&sk, &msg, &plan, None) {
                            sigs.push(serde_json::json!([hex(&msg), hex(&V::sig_to_bytes(&sig))]));
                        }
                    }
                    serde_json::json!({"sk": hex(&V::sk_to_bytes(&sk)), "pk": hex(&V::pk_to_bytes(&pk)), "sigs": sigs})
                }
            };
            serde_json::to_vec(&v).unwrap_or_default()
        };
        let res = crate::isolate::fork_map(&items, workers, None, &job);
        let mut keys = Vec::new();
        let mut failures = Vec::new();
        for i in 0..count as u64 {
            let (seed, _) = seed_of(i);
            let parsed: Option<serde_json::Value> = match res.get(&i) {
                Some(Ok(b)) => serde_json::from_slice(b).ok(),
                Some(Err(f)) => {
                    failures.push((seed, f.describe()));
                    continue;
                }
                None => {
                    failures.push((seed, "no result".into()));
                    continue;
                }
            };
            let v = match parsed {
                Some(v) => v,
                None => {
                    failures.push((seed, "undecodable result".into()));
                    continue;
                }
            };
            if let Some(e) = v.get("err").and_then(|e| e.as_str()) {
                failures.push((seed, e.to_string()));
                continue;
            }
            let g = |k: &str| v.get(k).and_then(|x| x.as_str()).and_then(unhex);
            match (g("sk"), g("pk")) {
                (Some(sk), Some(pk)) => {
                    let sigs = v
                        .get("sigs")
                        .and_then(|s| s.as_array())
                        .map(|a| {
                            a.iter()
                                .filter_map(|p| {
                                    let p = p.as_array()?;
                                    Some((unhex(p.get(0)?.as_str()?)?, unhex(p.get(1)?.as_str()?)?))
                                })
                                .collect()
                        })
                        .unwrap_or_default();
                    keys.push(KeyEntry {
                        seed,
                        sk_bytes: sk,
                        pk_bytes: pk,
                        sigs,
                        _v: std::marker::PhantomData,
                    });
                }
                _ => failures.push((seed, "missing key bytes".into())),
            }
        }
        KeyPool { keys, failures }
    }
}


/// Seeds for which the first key-generation candidate that passes the range and norm tests has an f
/// that vanishes at exactly one root of X^n + 1 mod q, an "end root" (see `reference::keygen`), and so
/// has to be discarded for that one transform coefficient: selected among `scan` seeds derived from the run seed, with the
/// reference model of the candidate stream, in parallel child processes. Returns (seed, root).
pub fn mine_keygen_seeds(seed: u64, n: usize, scan: u64, want: usize, workers: usize) -> Vec<([u8; 32], i64)> {
    use crate::reference::keygen as rk;
    const CHUNK: u64 = 200;
    let base = crate::report::run_seed(seed, "mine-keygen", n as u64);
    let seed_of = |i: u64| -> [u8; 32] { Prng::new(crate::rng::hash_u64(base, i)).seed32() };
    let items: Vec<u64> = (0..(scan + CHUNK - 1) / CHUNK).collect();
    let job = |c: u64| -> Vec<u8> {
        let roots = rk::end_roots(n);
        let mut out = Vec::new();
        for i in c * CHUNK..((c + 1) * CHUNK).min(scan) {
            if let Some((r, _j)) = rk::discarded_for_end_root(seed_of(i), n, &roots, 8) {
                out.extend_from_slice(&i.to_le_bytes());
                out.extend_from_slice(&r.to_le_bytes());
            }
        }
        out
    };
    let raw = crate::isolate::fork_map(&items, workers, None, &job);
    let mut v = Vec::new();
    for c in &items {
        if let Some(Ok(b)) = raw.get(c) {
            for e in b.chunks_exact(16) {
                let i = u64::from_le_bytes(e[..8].try_into().unwrap());
                let r = i64::from_le_bytes(e[8..].try_into().unwrap());
                if v.len() < want {
                    v.push((seed_of(i), r));
                }
            }
        }
    }
    v
}
