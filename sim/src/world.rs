//! Building blocks of the simulated deployment: signing with simulator-owned
//! entropy, guarded key generation with a step bound, and the per-invocation
//! key pool.

use crate::entropy::{Installed, Mode, Shared, SimStream};
use crate::guard::{guarded, Unwind};
use crate::rng::{mix, Prng};
use crate::sched::Handle;
use crate::variant::Variant;
use std::cell::RefCell;
use std::collections::BTreeMap;
use std::rc::Rc;
use std::sync::atomic::{AtomicUsize, Ordering};
use std::sync::Mutex;

/// ≈ 40x the draws of a typical sign call (512: ~25k, 1024: ~50k)
pub fn sign_cap(n: usize) -> u64 {
    (n as u64) * 2 * 17 * 60
}

/// one ntru_gen attempt draws ≈ 8192 * ~20 bytes; allow 200 attempts
pub const KEYGEN_CAP: u64 = 8192 * 24 * 200;

#[derive(Clone, Debug, Default)]
pub struct OpTrace {
    pub draws: u64,
    pub probes: BTreeMap<&'static str, u64>,
    pub fired: BTreeMap<&'static str, u64>,
    pub landed: BTreeMap<&'static str, u64>,
    pub sigma_out_of_range: u64,
    pub sampler_calls: u64,
    pub max_tie_depth: usize,
}

#[derive(Clone, Debug, Default)]
pub struct SignPlan {
    pub stream_seed: u64,
    pub mode: Option<Mode>,
    /// buggify: site -> visit indices at which to fire
    pub fire: Vec<(&'static str, Vec<u64>)>,
}

impl SignPlan {
    pub fn uniform(seed: u64) -> Self {
        SignPlan {
            stream_seed: seed,
            mode: Some(Mode::Uniform),
            fire: Vec::new(),
        }
    }
}

/// `sign` with the ambient entropy replaced by a simulator stream (or, with
/// `mode == None`, the real `thread_rng` left in place).
pub fn sign_sim<V: Variant>(
    sk: &V::Sk,
    msg: &[u8],
    plan: &SignPlan,
    handle: Option<Rc<Handle>>,
) -> (Result<V::Sig, Unwind>, OpTrace) {
    let shared = Shared::new();
    {
        let mut s = shared.borrow_mut();
        s.begin_op();
        s.expected_calls = 2 * V::N as u64;
        for (site, at) in &plan.fire {
            s.fire_at.insert(site, at.iter().cloned().collect());
        }
    }
    let stream = plan.mode.as_ref().map(|m| {
        Rc::new(RefCell::new(SimStream::new(
            plan.stream_seed,
            m.clone(),
            shared.clone(),
            handle.clone(),
            sign_cap(V::N),
        )))
    });
    let r = {
        let inst = Installed::observer(shared.clone(), handle.clone());
        let _inst = match &stream {
            Some(s) => inst.with_stream(s.clone()),
            None => inst,
        };
        guarded(|| V::sign(msg, sk))
    };
    let s = shared.borrow();
    let tr = OpTrace {
        draws: stream.as_ref().map(|s| s.borrow().draws).unwrap_or(0),
        probes: s.probes.clone(),
        fired: s.fired.clone(),
        landed: s.landed.clone(),
        sigma_out_of_range: s.sigma_out_of_range,
        sampler_calls: s.sampler_calls + if s.cur_params.is_some() { 1 } else { 0 },
        max_tie_depth: s.max_tie_depth,
    };
    (r, tr)
}

#[derive(Clone, Debug, Default)]
pub struct KeygenTrace {
    pub seed_draws: u64,
    pub attempts: u64,
    pub ambient_draws: u64,
}

/// `keygen(seed)` under a draw bound; `ambient` optionally installs a stream
/// behind the ambient seam (key generation must not touch it).
pub fn keygen_sim<V: Variant>(
    seed: [u8; 32],
    handle: Option<Rc<Handle>>,
    ambient_seed: Option<u64>,
) -> (Result<(V::Sk, V::Pk), Unwind>, KeygenTrace) {
    let shared = Shared::new();
    {
        let mut s = shared.borrow_mut();
        s.begin_op();
        s.seed_stream_cap = KEYGEN_CAP;
    }
    let stream = ambient_seed.map(|a| {
        let mut st = SimStream::new(a, Mode::Uniform, shared.clone(), handle.clone(), KEYGEN_CAP);
        st.what = "keygen drew from the ambient seam beyond its bound";
        Rc::new(RefCell::new(st))
    });
    let r = {
        let inst = Installed::observer(shared.clone(), handle.clone());
        let _inst = match &stream {
            Some(s) => inst.with_stream(s.clone()),
            None => inst,
        };
        guarded(|| V::keygen(seed))
    };
    let s = shared.borrow();
    let tr = KeygenTrace {
        seed_draws: s.seed_stream_draws,
        attempts: s.probe_count("ntru_gen.attempt"),
        ambient_draws: stream.as_ref().map(|s| s.borrow().draws).unwrap_or(0),
    };
    (r, tr)
}

pub struct KeyEntry<V: Variant> {
    pub seed: [u8; 32],
    pub sk: V::Sk,
    pub pk: V::Pk,
    pub sk_bytes: Vec<u8>,
    pub pk_bytes: Vec<u8>,
    /// a few honest signatures (message, signature bytes)
    pub sigs: Vec<(Vec<u8>, Vec<u8>)>,
}

pub struct KeyPool<V: Variant> {
    pub keys: Vec<KeyEntry<V>>,
    /// keygen failures while building the pool (unwind / no progress), by seed
    pub failures: Vec<([u8; 32], Unwind)>,
}

pub fn message(rng: &mut Prng) -> Vec<u8> {
    // lengths include 0, 1, the SHAKE-256 rate boundary once the 40-byte salt is
    // prepended (136 - 40 = 96), and larger
    let len = match rng.below(12) {
        0 => 0,
        1 => 1,
        2 => 95,
        3 => 96,
        4 => 97,
        5 => 4096,
        6 => 232,
        _ => rng.usize_below(300),
    };
    rng.bytes(len)
}

impl<V: Variant> KeyPool<V> {
    /// Build `count` keys from seeds derived from `pool_seed`, with `nsigs`
    /// honest signatures each; parallel over `workers`.
    pub fn build(pool_seed: u64, count: usize, nsigs: usize, workers: usize) -> KeyPool<V> {
        let next = AtomicUsize::new(0);
        let out: Mutex<BTreeMap<usize, Result<KeyEntry<V>, ([u8; 32], Unwind)>>> = Mutex::new(BTreeMap::new());
        std::thread::scope(|sc| {
            for _ in 0..workers.max(1).min(count.max(1)) {
                sc.spawn(|| loop {
                    let i = next.fetch_add(1, Ordering::SeqCst);
                    if i >= count {
                        break;
                    }
                    let mut rng = Prng::new(mix(&[pool_seed, V::N as u64, i as u64]));
                    let seed = rng.seed32();
                    let (r, _tr) = keygen_sim::<V>(seed, None, None);
                    let e = match r {
                        Err(u) => Err((seed, u)),
                        Ok((sk, pk)) => {
                            let mut sigs = Vec::new();
                            for j in 0..nsigs {
                                let msg = message(&mut rng);
                                let plan = SignPlan::uniform(mix(&[pool_seed, i as u64, j as u64, 7]));
                                if let (Ok(sig), _) = sign_sim::<V>(&sk, &msg, &plan, None) {
                                    sigs.push((msg, V::sig_to_bytes(&sig)));
                                }
                            }
                            Ok(KeyEntry {
                                seed,
                                sk_bytes: V::sk_to_bytes(&sk),
                                pk_bytes: V::pk_to_bytes(&pk),
                                sk,
                                pk,
                                sigs,
                            })
                        }
                    };
                    out.lock().unwrap().insert(i, e);
                });
            }
        });
        let mut keys = Vec::new();
        let mut failures = Vec::new();
        for (_i, e) in out.into_inner().unwrap() {
            match e {
                Ok(k) => keys.push(k),
                Err(f) => failures.push(f),
            }
        }
        KeyPool { keys, failures }
    }
}
