//! C06 — decoding is strict. Every delivery to a decoder is judged by the
//! strict reference decoder: the verdicts must agree, and whatever the real
//! decoder accepts must re-encode to the delivered bytes.

use crate::deliveries::{self as dl, Delivery, NodeResult, Pools, Target, PROFILE_C06};
use crate::faults::{minimise_damage, FaultMix};
use crate::guard::guarded;
use crate::reference::codec;
use crate::report::{self, Report, RunOutcome, Stats, Tier, Violation};
use crate::rng::{hash_bytes, Prng};
use serde_json::{json, Value};

pub const PROP: &str = "C06";

fn type_name(d: &Delivery) -> String {
    format!(
        "{}{}",
        match d.target {
            Target::Pk => "PublicKey",
            Target::Sk => "SecretKey",
            Target::Sig => "Signature",
            Target::Verify => "verify",
        },
        d.n
    )
}

/// Ok(()) if the reference decoder accepts, Err(reason) otherwise.
fn reference_verdict(d: &Delivery) -> Result<(), String> {
    let p = codec::params(d.n);
    match d.target {
        Target::Pk => codec::pk_decode(p, &d.bytes).map(|_| ()).map_err(|e| format!("{:?}", e)),
        Target::Sk => codec::sk_decode(p, &d.bytes).map(|_| ()).map_err(|e| format!("{:?}", e)),
        Target::Sig => codec::sig_decode(p, &d.bytes).map(|_| ()).map_err(|e| format!("{:?}", e)),
        Target::Verify => Err("n/a".into()),
    }
}

/// The violation class of a delivery, if any. `None` also when the node unwound
/// (that is C03's subject).
pub fn judge(d: &Delivery) -> (Option<String>, &'static str) {
    let r = match guarded(|| dl::execute_dyn(d)) {
        Ok(r) => r,
        // a decoder that unwinds has neither accepted nor "rejected with an error" (C03 reports the unwind
        // as such; here it is the missing verdict that counts)
        Err(u) => {
            let what = match d.target {
                Target::Pk => "PublicKey",
                Target::Sk => "SecretKey",
                Target::Sig => "Signature",
                Target::Verify => return (None, "unwind"),
            };
            return (Some(format!("{}{}::from_bytes unwinds instead of returning a verdict ({})", what, d.n, u.signature())), "unwind");
        }
    };
    let refv = reference_verdict(d);
    match (r, refv) {
        (NodeResult::Decoded { reencoded }, Ok(())) => {
            if reencoded != d.bytes {
                (
                    Some(format!("{}::from_bytes accepts a canonical string but re-encodes it differently", type_name(d))),
                    "accept/accept",
                )
            } else {
                (None, "accept/accept")
            }
        }
        (NodeResult::Decoded { reencoded }, Err(reason)) => (
            Some(format!(
                "{}::from_bytes accepts a string the strict decoder rejects ({}); re-encoding {}",
                type_name(d),
                reason,
                if reencoded == d.bytes { "equal" } else { "differs" }
            )),
            "accept/reject",
        ),
        (NodeResult::Rejected { error }, Ok(())) => (
            Some(format!("{}::from_bytes rejects a canonical encoding ({})", type_name(d), error)),
            "reject/accept",
        ),
        (NodeResult::Rejected { .. }, Err(_)) => (None, "reject/reject"),
        _ => (None, "n/a"),
    }
}

fn minimise(d: &Delivery, class: &str) -> Delivery {
    let mut cur = d.clone();
    if let Some(p) = cur.pristine.clone() {
        if p.len() == cur.bytes.len() {
            let base = cur.clone();
            cur.bytes = minimise_damage(&p, &cur.bytes, |b| {
                let mut t = base.clone();
                t.bytes = b.to_vec();
                judge(&t).0.as_deref() == Some(class)
            });
        }
    }
    cur.detail = format!("{} [minimised]", cur.detail);
    cur
}

pub fn one_run(seed: u64, run: u64, pools: &Pools, deliveries: usize) -> RunOutcome {
    let mut rng = Prng::new(report::run_seed(seed, PROP, run));
    let mix = FaultMix::swarm(&mut rng);
    let mut st = Stats::default();
    let mut out = RunOutcome::default();
    let mut log = report::EventLog::new(false);
    st.inc("runs");
    for i in 0..deliveries {
        let d = dl::draw(&mut rng, pools, &mix, &PROFILE_C06);
        st.evaluations += 1;
        st.steps += 1;
        for f in &d.faults {
            st.inc(&format!("fault.{}", f.kind()));
        }
        st.inc(&format!("origin.{}", d.origin.split('+').next().unwrap_or("")));
        if d.origin.contains("misdelivered") {
            st.inc("fault.N8");
        }
        st.inc(&format!("target.{}{}", d.target.name(), d.n));
        let (class, verdicts) = judge(&d);
        st.inc(&format!("verdicts.{}", verdicts));
        if let Err(reason) = reference_verdict(&d) {
            st.inc(&format!("reference_reject.{}.{}", d.target.name(), reason));
        }
        // non-trivial: the string has the right length and header for the
        // receiving decoder, i.e. the verdict is decided at field level
        let p = codec::params(d.n);
        let framed = match d.target {
            Target::Pk => d.bytes.len() == p.pk_len && d.bytes[0] == p.logn,
            Target::Sk => d.bytes.len() == p.sk_len && d.bytes[0] == (0x50 | p.logn),
            Target::Sig => d.bytes.len() == p.sig_len && d.bytes[0] == codec::sig_header(p),
            _ => false,
        };
        if framed {
            report::keep_distinct(&mut st, hash_bytes(d.n as u64 ^ ((d.target as u64) << 32), &d.bytes));
        }
        log.event(&format!("{} {} {} {:016x} {}", i, d.target.name(), d.n, hash_bytes(0, &d.bytes), verdicts));
        if run == 0 && i % 131 == 7 {
            st.sample(d.summary());
        }
        if let Some(class) = class {
            st.inc("disagreements");
            if !out.violations.iter().any(|v: &Violation| v.class == class) {
                let m = minimise(&d, &class);
                out.violations.push(Violation {
                    property: PROP,
                    class,
                    detail: format!("{} ({})", m.detail, m.origin),
                    replay: json!({"kind": "delivery", "delivery": m.to_json(), "original_faults": d.faults.iter().map(|f| f.to_json()).collect::<Vec<_>>()}),
                    run,
                });
            }
        }
    }
    st.log_hash = log.hash;
    out.stats = st;
    out
}

pub fn replay(doc: &Value) -> Option<String> {
    let d = Delivery::from_json(doc.get("delivery")?)?;
    judge(&d).0
}

pub fn corpus(report: &mut Report) {
    let dir = report::verif_root().join("corpus").join(PROP);
    let mut files: Vec<_> = match std::fs::read_dir(&dir) {
        Ok(rd) => rd.filter_map(|e| e.ok()).map(|e| e.path()).filter(|p| p.extension().map(|x| x == "json").unwrap_or(false)).collect(),
        Err(_) => return,
    };
    files.sort();
    for f in files {
        let doc: Value = match std::fs::read_to_string(&f).ok().and_then(|s| serde_json::from_str(&s).ok()) {
            Some(v) => v,
            None => continue,
        };
        report.stats.inc("corpus.replayed");
        report.stats.evaluations += 1;
        if let Some(class) = replay(&doc) {
            report.violations.push(Violation {
                property: PROP,
                class,
                detail: format!("regression corpus entry {}", f.display()),
                replay: doc.clone(),
                run: 0,
            });
        }
    }
}

pub struct Ctx {
    pub pools: Pools,
    pub runs: u64,
    pub per_run: usize,
}

pub fn context(tier: Tier, seed: u64) -> Result<Ctx, String> {
    let w = report::workers();
    let (runs, per_run, k512, k1024) = match tier {
        Tier::Quick => (400u64, 1500usize, 12, 4),
        Tier::Thorough => (8000u64, 2500usize, 32, 12),
    };
    let pools = Pools::build(report::run_seed(seed, "pool", 0), k512, k1024, 6, w);
    if !pools.usable() {
        return Err("key pool could not be built on the current tree".into());
    }
    Ok(Ctx { pools, runs, per_run })
}

pub fn runner(tier: Tier, seed: u64) -> Option<(u64, Box<dyn Fn(u64) -> RunOutcome + Sync>)> {
    let ctx = context(tier, seed).ok()?;
    let n = ctx.runs;
    Some((n, Box::new(move |run| one_run(seed, run, &ctx.pools, ctx.per_run))))
}

pub fn rerun(tier: Tier, seed: u64, run: u64) -> Option<RunOutcome> {
    let ctx = context(tier, seed).ok()?;
    Some(one_run(seed, run, &ctx.pools, ctx.per_run))
}

pub fn check(tier: Tier, seed: u64) -> i32 {
    let mut rep = Report::new(PROP, tier, seed);
    if tier == Tier::Thorough {
        report::DISTINCT_SHIFT.store(4, std::sync::atomic::Ordering::Relaxed);
    }
    let w = report::workers();
    let ctx = match context(tier, seed) {
        Ok(c) => c,
        Err(e) => {
            eprintln!("HARNESS-ERROR: {}", e);
            return 2;
        }
    };
    corpus(&mut rep);
    let out = report::parallel_runs(ctx.runs, w, |run| one_run(seed, run, &ctx.pools, ctx.per_run));
    rep.absorb(out);
    rep.rule = "a case is one byte string delivered to PublicKey/SecretKey/Signature::from_bytes of either variant, produced by the seeded channel/disk fault catalogue (bit flips incl. header bits, overwrites, truncation/extension, splices, torn writes, misdelivery across variants and object types) or the Byzantine key encoder Z3 from pristine encodings; non-trivial = right length and header for the receiving decoder, so that the verdict is decided at field level; distinct = distinct delivered bytes".to_string() + &report::distinct_rule_suffix();
    rep.assumptions = vec![
        "the strict reference decoders (sim/src/reference/codec.rs) encode the formats of specification sections 3.11.2/3.11.3/3.11.5 with this library's signature header label".into(),
        "a decoder that unwinds has given no verdict: reported here as well as by C03".into(),
    ];
    rep.components = json!({
        "real": ["PublicKey::from_bytes/to_bytes", "SecretKey::from_bytes/to_bytes", "Signature::from_bytes/to_bytes", "keygen+sign (pristine material)"],
        "stub": ["channel and disk with the fault catalogue", "ambient entropy of the pool's signers"],
        "model": ["strict reference decoders", "Byzantine key encoder Z3"],
    });
    rep.finish(report::confirm_in_fresh_process)
}
