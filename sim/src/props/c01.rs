//! C01 — every honest signature verifies, also under shared-key concurrency.
//! 1..8 signer threads share one key under the baton scheduler (pre-emption at
//! every entropy draw); the signer's entropy is a simulator stream with fault
//! modes (E2 forced ties, E3 table boundaries, E4 biased windows that push the
//! norm over the bound so that the natural retry fires); buggify forces the
//! norm-retry and the compression-retry branches. Oracle: every returned
//! signature verifies (also after its byte round trip), every planned sign
//! returns within its step bound, and the interleaved execution yields exactly
//! the signatures of the sequential execution of the same plan.

use crate::entropy::Mode;
use crate::guard::Unwind;
use crate::report::{self, Report, RunOutcome, Stats, Tier, Violation};
use crate::rng::{hash_u64, hex, Prng};
use crate::signers::{self, Keys, Op, OpResult, WorldPlan};
use crate::variant::{Variant, V1024, V512};
use crate::world::{self, KeyPool};
use serde_json::{json, Value};
use std::sync::Arc;

pub const PROP: &str = "C01";

pub fn draw_mode(rng: &mut Prng, n: usize) -> Mode {
    match rng.below(20) {
        0..=8 => Mode::Uniform,
        9..=11 => Mode::TieAt {
            call: rng.below(2 * n as u64),
            iter: 0,
            depth: rng.range(1, 7) as u8,
            dir: if rng.chance(1, 2) { 1 } else { -1 },
        },
        12..=13 => Mode::TableAt {
            call: rng.below(2 * n as u64),
            entry: rng.below(20) as u8,
            delta: rng.below(3) as i8 - 1,
        },
        _ => Mode::BiasedWindow {
            window: *rng.pick(&[4u64, 8, 16, 24, 32, 48, 64, 128, 256, 2 * n as u64]),
            sign: rng.below(2) as u8,
        },
    }
}

pub fn draw_plan(rng: &mut Prng, n: usize, key_seed: [u8; 32], verify_sample: Option<(Vec<u8>, Vec<u8>)>) -> WorldPlan {
    let nthreads = match rng.below(8) {
        0 => 1,
        1 | 2 => 2,
        3 | 4 => 3,
        5 => 4,
        6 => 6,
        _ => 8,
    };
    let mut threads = Vec::new();
    for _ in 0..nthreads {
        let nops = 1 + rng.usize_below(if nthreads > 4 { 3 } else { 6 });
        let mut ops = Vec::new();
        for _ in 0..nops {
            let bug = rng.chance(1, 3);
            ops.push(Op::Sign {
                key: 0,
                msg: world::message(rng),
                stream: rng.next_u64(),
                mode: Some(draw_mode(rng, n)),
                norm_rejects: if bug { rng.below(4) as u8 } else { 0 },
                compress_fails: if bug { rng.below(4) as u8 } else { 0 },
            });
        }
        threads.push(ops);
    }
    // 0..2 verifier threads sharing the public key
    if let Some((msg, sig)) = verify_sample {
        for _ in 0..rng.below(3) {
            let k = 1 + rng.usize_below(20);
            threads.push((0..k).map(|_| Op::Verify { key: 0, msg: msg.clone(), sig: sig.clone() }).collect());
        }
    }
    let sequentialish = rng.chance(1, 8);
    // pre-emption density: pick a budget of expected switches for the whole run
    // and derive k from it, so that "pre-empt every few draws" happens in runs
    // with few operations and long runs are pre-empted sparsely
    let sign_ops: u64 = threads.iter().flatten().filter(|o| matches!(o, Op::Sign { .. })).count() as u64;
    let draws = sign_ops.max(1) * (n as u64) * 50;
    let budget = *rng.pick(&[10u64, 30, 100, 300, 1000, 3000, 6000]);
    let mut k = 3u32;
    while k < 20 && (draws >> k) > budget {
        k += 1;
    }
    WorldPlan {
        n,
        key_seeds: vec![key_seed],
        sched_seed: rng.next_u64(),
        switch_exp: if sequentialish { None } else { Some(k) },
        boundary: if sequentialish { 0 } else { rng.below(257) as u32 },
        threads,
        align: None,
    }
}

pub struct Verdict {
    pub class: Option<(String, String)>,
    pub stats: Stats,
}

/// Execute a plan (interleaved, then sequentially) and apply the oracle.
pub fn run_plan<V: Variant>(plan: &WorldPlan, keys: Keys<V>, compare_sequential: bool) -> Verdict {
    let mut st = Stats::default();
    let n = V::N;
    let (res, sched) = signers::execute::<V>(plan, keys.clone());
    if sched.free_running {
        // the schedule was infeasible (a thread was pre-empted inside a critical section of the
        // code under test and the baton holder blocked on it): inconclusive, nothing is judged
        st.inc("inconclusive.schedule_infeasible");
        return Verdict { class: None, stats: st };
    }
    st.steps += sched.steps;
    st.add("sched.switches", sched.switches);
    st.add("sched.lock_handoffs", sched.lock_handoffs);
    if sched.switches > 0 {
        st.interleavings.insert(sched.trace_hash);
    }
    st.overlap_states.extend(sched.overlap_states.iter().cloned());
    let mut log = hash_u64(0, sched.trace_hash);
    let mut class: Option<(String, String)> = None;
    let mut set = |c: String, d: String, class: &mut Option<(String, String)>| {
        if class.is_none() {
            *class = Some((c, d));
        }
    };
    for (t, tr) in res.iter().enumerate() {
        let ops = match tr {
            Ok(o) => o,
            Err(u) => {
                set(format!("simulated thread of variant {} died outside an operation: {}", n, u.signature()), format!("thread {}", t), &mut class);
                continue;
            }
        };
        for (i, r) in ops.iter().enumerate() {
            st.evaluations += 1;
            log = hash_u64(log, r.digest());
            let op = &plan.threads[t][i];
            match (op, r) {
                (Op::Sign { key, msg, mode, .. }, OpResult::Sig { bytes, trace, preempted }) => {
                    let kind = mode.as_ref().map(|m| m.kind()).unwrap_or("E5");
                    st.inc(&format!("sign.stream.{}", kind));
                    for (k, v) in &trace.landed {
                        st.add(&format!("fault_landed.{}", k), *v);
                    }
                    let forced_n = *trace.fired.get("sign.norm_reject").unwrap_or(&0);
                    let forced_c = *trace.fired.get("sign.compress_fail").unwrap_or(&0);
                    let nat_n = *trace.probes.get("sign.norm_reject").unwrap_or(&0);
                    let nat_c = trace.probes.get("sign.compress_fail").unwrap_or(&0).saturating_sub(forced_c);
                    st.add("fault.B1_forced_norm_reject", forced_n);
                    st.add("fault.B2_forced_compress_fail", forced_c);
                    st.add("probe.natural_norm_reject", nat_n);
                    st.add("probe.natural_compress_fail", nat_c);
                    st.add("probe.sigma_out_of_range", trace.sigma_out_of_range);
                    st.add("sampler_iterations", *trace.probes.get("sampler_z.iteration").unwrap_or(&0));
                    if *preempted > 0 {
                        st.inc("sign.preempted_mid_call");
                        st.add("fault.S1_preemptions", *preempted);
                    }
                    let nontrivial = *preempted > 0 || forced_n + forced_c + nat_n + nat_c > 0 || !trace.landed.is_empty();
                    if nontrivial {
                        st.distinct.insert(hash_u64(hash_u64(sched.trace_hash, t as u64), r.digest()));
                    }
                    if bytes.len() != V::SIG_LEN {
                        set(format!("signature{} encodes to {} bytes", n, bytes.len()), format!("thread {} op {}", t, i), &mut class);
                        continue;
                    }
                    let pk = &keys[*key].1;
                    let ok = crate::guard::guarded(|| match V::sig_from_bytes(bytes) {
                        Ok(s) => Ok(V::verify(msg, &s, pk)),
                        Err(e) => Err(e),
                    });
                    match ok {
                        Ok(Ok(true)) => st.inc("verified"),
                        Ok(Ok(false)) => set(
                            format!("honest signature{} rejected by verify", n),
                            format!("thread {} op {} stream {} forced retries {}/{} natural {}/{} preempted {}", t, i, kind, forced_n, forced_c, nat_n, nat_c, preempted),
                            &mut class,
                        ),
                        Ok(Err(e)) => set(format!("Signature{}::from_bytes rejects an honest signature ({})", n, e), format!("thread {} op {}", t, i), &mut class),
                        Err(u) => set(format!("verify{} {} on an honest signature", n, u.signature()), format!("thread {} op {}", t, i), &mut class),
                    }
                }
                (Op::Sign { mode, .. }, OpResult::Unwound(u)) => {
                    let kind = mode.as_ref().map(|m| m.kind()).unwrap_or("E5");
                    match u {
                        Unwind::NoProgress { draws, .. } => set(
                            format!("sign{} makes no progress within its step bound", n),
                            format!("thread {} op {} stream {} draws {}", t, i, kind, draws),
                            &mut class,
                        ),
                        Unwind::Code { location, message } => {
                            set(format!("sign{} unwinds at {}", n, location), format!("thread {} op {} stream {}: {}", t, i, kind, message), &mut class)
                        }
                    }
                }
                (Op::Verify { .. }, OpResult::Verified(b)) => {
                    st.inc("verifier_thread.verify");
                    if !*b {
                        set(format!("honest signature{} rejected by verify", n), format!("verifier thread {} op {} (pool signature)", t, i), &mut class);
                    }
                }
                (Op::Verify { .. }, OpResult::Unwound(u)) => set(format!("verify{} {} on an honest signature", n, u.signature()), format!("verifier thread {}", t), &mut class),
                _ => {}
            }
        }
    }
    // interleaving must not change any signature
    if compare_sequential && class.is_none() && plan.switch_exp.is_some() {
        let (seq, s2) = signers::execute::<V>(&plan.sequential(), keys.clone());
        st.inc("sequential_controls");
        if s2.free_running {
            st.inc("inconclusive.schedule_infeasible");
            st.log_hash = log;
            return Verdict { class, stats: st };
        }
        'outer: for (t, (a, b)) in res.iter().zip(seq.iter()).enumerate() {
            if let (Ok(a), Ok(b)) = (a, b) {
                for (i, (x, y)) in a.iter().zip(b.iter()).enumerate() {
                    if x.digest() != y.digest() {
                        set(
                            format!("interleaving changed the result of an operation (variant {})", n),
                            format!("thread {} op {}: interleaved {:016x} sequential {:016x}", t, i, x.digest(), y.digest()),
                            &mut class,
                        );
                        break 'outer;
                    }
                }
            }
        }
    }
    st.log_hash = log;
    Verdict { class, stats: st }
}

fn run_plan_dyn(plan: &WorldPlan) -> Option<Verdict> {
    if plan.n == 512 {
        let keys = signers::regenerate_keys::<V512>(plan).ok()?;
        Some(run_plan::<V512>(plan, keys, true))
    } else {
        let keys = signers::regenerate_keys::<V1024>(plan).ok()?;
        Some(run_plan::<V1024>(plan, keys, true))
    }
}

/// Shrink while the same class persists: drop threads, drop ops, no
/// pre-emption, no buggify / entropy faults, empty messages.
fn minimise<V: Variant>(plan: &WorldPlan, keys: Keys<V>, class: &str) -> WorldPlan {
    // every trial in its own forked process: state the code under test may keep (caches, statics)
    // must not leak from one trial into the next, or the minimised plan would not replay
    let same = |p: &WorldPlan| {
        if p.threads.is_empty() || p.threads.iter().all(|t| t.is_empty()) {
            return false;
        }
        let r = crate::isolate::isolated(
            || run_plan::<V>(p, keys.clone(), true).class.map(|c| c.0).unwrap_or_default().into_bytes(),
            crate::isolate::run_timeout_s(),
        );
        matches!(r, Ok(b) if b == class.as_bytes())
    };
    let mut cur = plan.clone();
    let mut budget = 60;
    // threads
    let mut t = 0;
    while t < cur.threads.len() && cur.threads.len() > 1 && budget > 0 {
        let mut p = cur.clone();
        p.threads.remove(t);
        budget -= 1;
        if same(&p) {
            cur = p;
        } else {
            t += 1;
        }
    }
    // ops
    for t in 0..cur.threads.len() {
        let mut i = 0;
        while i < cur.threads[t].len() && budget > 0 {
            let mut p = cur.clone();
            p.threads[t].remove(i);
            budget -= 1;
            if same(&p) {
                cur = p;
            } else {
                i += 1;
            }
        }
    }
    cur.threads.retain(|t| !t.is_empty());
    // schedule
    if cur.switch_exp.is_some() {
        let p = cur.sequential();
        if same(&p) {
            cur = p;
        }
    }
    // faults and messages
    for t in 0..cur.threads.len() {
        for i in 0..cur.threads[t].len() {
            let orig = cur.threads[t][i].clone();
            if let Op::Sign { key, msg, stream, mode, norm_rejects, compress_fails } = orig {
                let trials = vec![
                    Op::Sign { key, msg: vec![], stream, mode: Some(Mode::Uniform), norm_rejects: 0, compress_fails: 0 },
                    Op::Sign { key, msg: msg.clone(), stream, mode: Some(Mode::Uniform), norm_rejects: 0, compress_fails: 0 },
                    Op::Sign { key, msg: msg.clone(), stream, mode: mode.clone(), norm_rejects: 0, compress_fails: 0 },
                    Op::Sign { key, msg: msg.clone(), stream, mode: Some(Mode::Uniform), norm_rejects, compress_fails },
                    Op::Sign { key, msg: vec![], stream, mode: mode.clone(), norm_rejects, compress_fails },
                ];
                for tr in trials {
                    if budget == 0 {
                        break;
                    }
                    let mut p = cur.clone();
                    p.threads[t][i] = tr;
                    budget -= 1;
                    if same(&p) {
                        cur = p;
                        break;
                    }
                }
            }
        }
    }
    cur
}

fn one_run<V: Variant>(seed: u64, run: u64, pool: &KeyPool<V>) -> RunOutcome {
    let mut rng = Prng::new(report::run_seed(seed, PROP, run));
    let ki = rng.usize_below(pool.keys.len());
    let k = &pool.keys[ki];
    let vs = k.sigs.first().cloned();
    let plan = draw_plan(&mut rng, V::N, k.seed, vs);
    // the key object is decoded inside this run's own process
    let keys: Keys<V> = match k.load() {
        Ok(kp) => Arc::new(vec![kp]),
        Err(e) => {
            let mut out = RunOutcome::default();
            out.stats.inc("harness.pool_key_not_loadable");
            out.stats.notes.insert(format!("pool key could not be decoded: {}", e));
            return out;
        }
    };
    let v = run_plan::<V>(&plan, keys.clone(), true);
    let mut out = RunOutcome::default();
    out.stats = v.stats;
    out.stats.inc("runs");
    out.stats.inc(&format!("variant.{}", V::N));
    out.stats.inc(&format!("threads.{}", plan.threads.len()));
    out.stats.add("fault.S2_thread_configs", 1);
    if run < 2 {
        let mut j = plan.to_json();
        // keep samples small
        if let Some(t) = j.get_mut("threads").and_then(|t| t.as_array_mut()) {
            for th in t.iter_mut() {
                if let Some(ops) = th.as_array_mut() {
                    ops.truncate(2);
                    for o in ops.iter_mut() {
                        if let Some(m) = o.as_object_mut() {
                            m.remove("sig_hex");
                            if m.get("msg_hex").and_then(|x| x.as_str()).map(|s| s.len() > 64).unwrap_or(false) {
                                m.insert("msg_hex".into(), json!("(long)"));
                            }
                        }
                    }
                }
            }
        }
        out.stats.sample(j);
    }
    if let Some((class, detail)) = v.class {
        let m = minimise::<V>(&plan, keys, &class);
        out.violations.push(Violation {
            property: PROP,
            class,
            detail,
            replay: m.to_json(),
            run,
        });
    }
    out
}

// ---------------------------------------------------------------------------
// mixed-variant runs: the same caller threads alternate between a Falcon-512
// and a Falcon-1024 key (sign, then verify on the same thread), so that state
// kept per thread or per process and not keyed by the variant or the key is
// exercised across both
// ---------------------------------------------------------------------------

#[derive(Clone, Debug)]
pub struct MixedPlan {
    pub seed512: [u8; 32],
    pub seed1024: [u8; 32],
    pub sched_seed: u64,
    pub switch_exp: Option<u32>,
    pub boundary: u32,
    /// per thread: ops; `key` 0 = the Falcon-512 key, 1 = the Falcon-1024 key
    pub threads: Vec<Vec<Op>>,
}

impl MixedPlan {
    fn to_json(&self) -> Value {
        json!({"kind": "mixed", "seed512_hex": crate::rng::hex(&self.seed512), "seed1024_hex": crate::rng::hex(&self.seed1024),
               "sched_seed": self.sched_seed, "switch_exp": self.switch_exp, "boundary": self.boundary,
               "threads": self.threads.iter().map(|t| t.iter().map(|o| o.to_json()).collect::<Vec<_>>()).collect::<Vec<_>>()})
    }
    fn from_json(v: &Value) -> Option<MixedPlan> {
        Some(MixedPlan {
            seed512: crate::rng::unhex(v.get("seed512_hex")?.as_str()?)?.try_into().ok()?,
            seed1024: crate::rng::unhex(v.get("seed1024_hex")?.as_str()?)?.try_into().ok()?,
            sched_seed: v.get("sched_seed")?.as_u64()?,
            switch_exp: v.get("switch_exp").and_then(|x| x.as_u64()).map(|x| x as u32),
            boundary: v.get("boundary")?.as_u64()? as u32,
            threads: v.get("threads")?.as_array()?.iter().map(|t| t.as_array()?.iter().map(Op::from_json).collect::<Option<Vec<_>>>()).collect::<Option<Vec<_>>>()?,
        })
    }
}

type K512 = Arc<(<V512 as Variant>::Sk, <V512 as Variant>::Pk)>;
type K1024 = Arc<(<V1024 as Variant>::Sk, <V1024 as Variant>::Pk)>;

/// (thread, op, variant, Ok(verified) | Err(description))
fn run_mixed(plan: &MixedPlan, k512: K512, k1024: K1024) -> (Option<(String, String)>, Stats) {
    use crate::sched::{run_threads, Handle};
    use std::rc::Rc;
    fn one<V: Variant>(sk: &V::Sk, pk: &V::Pk, op: &Op, h: &Rc<Handle>) -> Result<bool, String> {
        if let Op::Sign { msg, .. } = op {
            let sp = op.sign_plan().unwrap();
            let (r, _tr) = world::sign_sim::<V>(sk, msg, &sp, Some(h.clone()));
            match r {
                Ok(sig) => {
                    let bytes = V::sig_to_bytes(&sig);
                    match crate::guard::guarded(|| match V::sig_from_bytes(&bytes) {
                        Ok(s) => V::verify(msg, &s, pk),
                        Err(_) => false,
                    }) {
                        Ok(b) => Ok(b),
                        Err(u) => Err(format!("verify{} {}", V::N, u.signature())),
                    }
                }
                Err(Unwind::NoProgress { .. }) => Err(format!("sign{} makes no progress within its step bound", V::N)),
                Err(Unwind::Code { location, .. }) => Err(format!("sign{} unwinds at {}", V::N, location)),
            }
        } else {
            Ok(true)
        }
    }
    let bodies: Vec<Box<dyn FnOnce(Rc<Handle>) -> Vec<(usize, Result<bool, String>)> + Send>> = plan
        .threads
        .iter()
        .map(|ops| {
            let ops = ops.clone();
            let (a, b) = (k512.clone(), k1024.clone());
            Box::new(move |h: Rc<Handle>| {
                let mut out = Vec::new();
                for op in ops.iter() {
                    h.boundary();
                    let key = if let Op::Sign { key, .. } = op { *key } else { 0 };
                    let r = if key == 0 { one::<V512>(&a.0, &a.1, op, &h) } else { one::<V1024>(&b.0, &b.1, op, &h) };
                    out.push((if key == 0 { 512usize } else { 1024usize }, r));
                }
                out
            }) as Box<dyn FnOnce(Rc<Handle>) -> Vec<(usize, Result<bool, String>)> + Send>
        })
        .collect();
    let (res, sched) = run_threads(plan.sched_seed, plan.switch_exp, plan.boundary, bodies);
    let mut st = Stats::default();
    if sched.free_running {
        st.inc("inconclusive.schedule_infeasible");
        return (None, st);
    }
    st.steps += sched.steps;
    st.add("sched.switches", sched.switches);
    st.add("sched.lock_handoffs", sched.lock_handoffs);
    if sched.switches > 0 {
        st.interleavings.insert(sched.trace_hash);
    }
    let mut class = None;
    let mut log = sched.trace_hash;
    for (t, tr) in res.iter().enumerate() {
        match tr {
            Err(u) => {
                class.get_or_insert((format!("simulated thread died outside an operation: {}", u.signature()), format!("thread {}", t)));
            }
            Ok(v) => {
                for (i, (n, r)) in v.iter().enumerate() {
                    st.evaluations += 1;
                    st.inc("mixed.sign_then_verify");
                    log = hash_u64(log, match r { Ok(true) => 1, Ok(false) => 2, Err(_) => 3 });
                    match r {
                        Ok(true) => {
                            st.distinct.insert(hash_u64(hash_u64(sched.trace_hash, t as u64), i as u64));
                        }
                        Ok(false) => {
                            class.get_or_insert((format!("honest signature{} rejected by verify", n), format!("mixed-variant run, thread {} op {}", t, i)));
                        }
                        Err(e) => {
                            class.get_or_insert((e.clone(), format!("mixed-variant run, thread {} op {}", t, i)));
                        }
                    }
                }
            }
        }
    }
    st.log_hash = log;
    (class, st)
}

fn mixed_run(seed: u64, run: u64, p512: &KeyPool<V512>, p1024: &KeyPool<V1024>) -> RunOutcome {
    let mut rng = Prng::new(report::run_seed(seed, "C01mixed", run));
    let a = rng.pick(&p512.keys);
    let b = rng.pick(&p1024.keys);
    let mut out = RunOutcome::default();
    let (ka, kb) = match (a.load(), b.load()) {
        (Ok(x), Ok(y)) => (Arc::new(x), Arc::new(y)),
        _ => {
            out.stats.inc("harness.pool_key_not_loadable");
            return out;
        }
    };
    let nthreads = 1 + rng.usize_below(3);
    let threads: Vec<Vec<Op>> = (0..nthreads)
        .map(|_| {
            (0..2 + rng.usize_below(5))
                .map(|_| Op::Sign {
                    key: rng.usize_below(2),
                    msg: world::message(&mut rng),
                    stream: rng.next_u64(),
                    mode: Some(if rng.chance(1, 4) { draw_mode(&mut rng, 512) } else { Mode::Uniform }),
                    norm_rejects: if rng.chance(1, 5) { 1 } else { 0 },
                    compress_fails: if rng.chance(1, 5) { 1 } else { 0 },
                })
                .collect()
        })
        .collect();
    let plan = MixedPlan {
        seed512: a.seed,
        seed1024: b.seed,
        sched_seed: rng.next_u64(),
        switch_exp: if nthreads == 1 { None } else { Some(*rng.pick(&[8u32, 10, 12, 14])) },
        boundary: rng.below(257) as u32,
        threads,
    };
    let (class, st) = run_mixed(&plan, ka.clone(), kb.clone());
    out.stats = st;
    out.stats.inc("runs");
    out.stats.inc("runs.mixed_variant");
    if let Some((class, detail)) = class {
        // minimise: single thread, then fewer ops
        let mut cur = plan.clone();
        let same = |p: &MixedPlan| !p.threads.is_empty() && run_mixed(p, ka.clone(), kb.clone()).0.map(|c| c.0).as_deref() == Some(class.as_str());
        for t in 0..plan.threads.len() {
            let p = MixedPlan { threads: vec![plan.threads[t].clone()], switch_exp: None, ..plan.clone() };
            if same(&p) {
                cur = p;
                break;
            }
        }
        for t in 0..cur.threads.len() {
            let mut i = 0;
            while i < cur.threads[t].len() && cur.threads[t].len() > 1 {
                let mut p = cur.clone();
                p.threads[t].remove(i);
                if same(&p) {
                    cur = p;
                } else {
                    i += 1;
                }
            }
        }
        out.violations.push(Violation { property: PROP, class, detail, replay: cur.to_json(), run });
    }
    out
}

fn replay_mixed(doc: &Value) -> Option<String> {
    let plan = MixedPlan::from_json(doc)?;
    let a = world::keygen_sim::<V512>(plan.seed512, None, None).0.ok()?;
    let b = world::keygen_sim::<V1024>(plan.seed1024, None, None).0.ok()?;
    run_mixed(&plan, Arc::new(a), Arc::new(b)).0.map(|c| c.0)
}

// ---------------------------------------------------------------------------
// deep runs: executed by the "deep" build (falcon-rust compiled with
// -Zinstrument-mcount, every function entry of the code under test a yield
// point). Many distinct keys, verifier and signer threads; the scheduler can now
// pre-empt inside verify and the decoders, where no entropy seam exists.
// ---------------------------------------------------------------------------

pub fn deep_plan(rng: &mut Prng, pool: &KeyPool<V512>) -> (WorldPlan, Vec<usize>) {
    // use (almost) all keys of the pool in one run
    let nkeys = pool.keys.len();
    let used: Vec<usize> = (0..nkeys).collect();
    let nthreads = 2 + rng.usize_below(5);
    let mut threads = Vec::new();
    let mut ops_total = 0u64;
    // in half of the runs every thread has a home key that it uses for most of its operations (a
    // server thread per tenant): "my key is still the cached one" is then the common case, and what a
    // schedule has to produce is another thread's write between this thread's check and its use
    let affine = rng.chance(1, 2);
    for _ in 0..nthreads {
        let nops = 10 + rng.usize_below(40);
        let mut ops = Vec::new();
        let home = rng.usize_below(nkeys);
        for _ in 0..nops {
            let k = if affine && rng.chance(5, 6) { home } else { rng.usize_below(nkeys) };
            if rng.chance(1, 8) {
                ops.push(Op::Sign { key: k, msg: world::message(rng), stream: rng.next_u64(), mode: Some(Mode::Uniform), norm_rejects: 0, compress_fails: 0 });
                ops_total += 8000;
            } else {
                let (m, s) = rng.pick(&pool.keys[k].sigs).clone();
                ops.push(Op::Verify { key: k, msg: m, sig: s });
                ops_total += 20;
            }
        }
        threads.push(ops);
    }
    // pre-emption budget: a verify is ~10^4 function entries, a sign ~10^5
    // counted yield points (measured in the instrumented build, arithmetic kernels filtered out):
    // ~20 per verify, ~8000 per sign
    let yields = ops_total.max(1);
    let budget = *rng.pick(&[30u64, 100, 300, 1000, 3000]);
    let mut k = 0u32;
    while k < 30 && (yields >> k) > budget {
        k += 1;
    }
    (
        WorldPlan {
            n: 512,
            key_seeds: used.iter().map(|&i| pool.keys[i].seed).collect(),
            sched_seed: rng.next_u64(),
            switch_exp: Some(k),
            boundary: rng.below(257) as u32,
            threads,
            // a sixth of the deep runs with aligned starts (operations beginning side by side)
            align: if rng.chance(1, 6) { Some((*rng.pick(&[16u32, 64, 256]), *rng.pick(&[1u32, 2, 3]))) } else { None },
        },
        used,
    )
}

fn deep_run(seed: u64, run: u64, pool: &KeyPool<V512>) -> RunOutcome {
    let mut rng = Prng::new(report::run_seed(seed, "C01deep", run));
    let (plan, used) = deep_plan(&mut rng, pool);
    let mut out = RunOutcome::default();
    let mut loaded = Vec::new();
    for &i in &used {
        match pool.keys[i].load() {
            Ok(kp) => loaded.push(kp),
            Err(_) => {
                out.stats.inc("harness.pool_key_not_loadable");
                return out;
            }
        }
    }
    let keys: Keys<V512> = Arc::new(loaded);
    let e0 = 0u64;
    let v = run_plan::<V512>(&plan, keys.clone(), true);
    out.stats = v.stats;
    out.stats.inc("runs");
    out.stats.inc("runs.deep");
    let _ = e0;
    out.stats.add("deep.yield_points", out.stats.steps);
    out.stats.add("deep.distinct_keys_in_run", used.len() as u64);
    if let Some((class, detail)) = v.class {
        let m = minimise::<V512>(&plan, keys, &class);
        let mut doc = m.to_json();
        doc.as_object_mut().unwrap().insert("deep".into(), json!(true));
        doc.as_object_mut().unwrap().insert(
            "fallback".into(),
            json!({"kind": "deep-rerun", "deep": true, "tier": if pool.keys.len() > 30 { "thorough" } else { "quick" }, "deep_seed": seed, "deep_run": run}),
        );
        out.violations.push(Violation { property: PROP, class, detail: format!("deep run: {}", detail), replay: doc, run: (1 << 41) + run });
    }
    out
}

/// entry of the deep binary: `falcon-sim deepruns C01 <tier> <seed> <outfile>`
pub fn deepruns_main(tier: Tier, seed: u64, outfile: &str) -> i32 {
    let w = report::workers();
    let (runs, nkeys) = match tier {
        Tier::Quick => (480u64, 24usize),
        Tier::Thorough => (6000u64, 40usize),
    };
    let pool: KeyPool<V512> = KeyPool::build(report::run_seed(seed, "deep-pool", 0), nkeys, 3, w);
    if pool.keys.len() < nkeys || pool.keys.iter().any(|k| k.sigs.is_empty()) {
        eprintln!("HARNESS-ERROR: deep key pool could not be built");
        return 2;
    }
    let mut out = report::parallel_runs(runs, w, |run| deep_run(seed, run, &pool));
    // runs of this batch whose process died are reported here (their indices are local to the deep batch)
    for (run, what) in report::take_dead_runs(&mut out.stats) {
        out.violations.push(Violation {
            property: PROP,
            class: format!("run's process died: {}", what),
            detail: format!("deep run {}", run),
            replay: json!({"kind": "deep-rerun", "deep": true, "tier": tier.name(), "deep_seed": seed, "deep_run": run}),
            run: (1 << 41) + run,
        });
    }
    match std::fs::write(outfile, out.to_bytes()) {
        Ok(_) => 0,
        Err(_) => 2,
    }
}

fn replay_deep_rerun(doc: &Value) -> Option<String> {
    let tier = if doc.get("tier")?.as_str()? == "thorough" { Tier::Thorough } else { Tier::Quick };
    let seed = doc.get("deep_seed")?.as_u64()?;
    let run = doc.get("deep_run")?.as_u64()?;
    let nkeys = if tier == Tier::Quick { 24 } else { 40 };
    let pool: KeyPool<V512> = KeyPool::build(report::run_seed(seed, "deep-pool", 0), nkeys, 3, report::workers());
    let r = crate::isolate::isolated(|| deep_run(seed, run, &pool).to_bytes(), crate::isolate::run_timeout_s());
    let want = doc.get("violation").and_then(|v| v.as_str()).unwrap_or("");
    match r {
        Ok(b) => {
            let o = RunOutcome::from_bytes(&b)?;
            if o.violations.iter().any(|v| v.class == want) {
                Some(want.to_string())
            } else {
                o.violations.first().map(|v| v.class.clone())
            }
        }
        Err(f) => Some(format!("run's process died: {}", f.describe())),
    }
}

// ---------------------------------------------------------------------------
// keys that change places
// ---------------------------------------------------------------------------
//
// A program holds several keys in a table and moves them around: swaps two slots, replaces a key and
// keeps the old one, removes and re-inserts, overwrites a slot with a copy. Moving a Rust value is a
// plain memory copy - no constructor, no destructor - so anything an implementation remembers *about*
// a key under the key's address (or under anything else that is not the key's value) goes stale
// without notice. One thread, 3-4 keys of one variant, 30-60 steps; after every step that signs, the
// signature must verify under the public key that belongs to the secret key that signed.

#[derive(Clone, Debug)]
pub enum Step {
    Sign { slot: usize, msg: Vec<u8>, stream: u64 },
    Swap { a: usize, b: usize },
    /// put the spare key `k` into `slot`; the old occupant is kept alive elsewhere
    Replace { slot: usize, k: usize },
    Reinsert { from: usize, to: usize },
    CopyOver { from: usize, to: usize },
}

#[derive(Clone, Debug)]
pub struct RotationPlan {
    pub n: usize,
    pub key_seeds: Vec<[u8; 32]>,
    pub slots: usize,
    pub steps: Vec<Step>,
}

impl RotationPlan {
    fn to_json(&self) -> Value {
        let steps: Vec<Value> = self
            .steps
            .iter()
            .map(|s| match s {
                Step::Sign { slot, msg, stream } => json!({"op": "sign", "slot": slot, "msg_hex": crate::rng::msg_hex(msg), "stream": stream}),
                Step::Swap { a, b } => json!({"op": "swap", "a": a, "b": b}),
                Step::Replace { slot, k } => json!({"op": "replace", "slot": slot, "k": k}),
                Step::Reinsert { from, to } => json!({"op": "reinsert", "from": from, "to": to}),
                Step::CopyOver { from, to } => json!({"op": "copy_over", "from": from, "to": to}),
            })
            .collect();
        json!({"kind": "rotation", "n": self.n, "key_seeds_hex": self.key_seeds.iter().map(|s| hex(s)).collect::<Vec<_>>(), "slots": self.slots, "steps": steps})
    }
    fn from_json(v: &Value) -> Option<RotationPlan> {
        let u = |x: &Value, k: &str| x.get(k).and_then(|y| y.as_u64()).map(|y| y as usize);
        Some(RotationPlan {
            n: v.get("n")?.as_u64()? as usize,
            key_seeds: v.get("key_seeds_hex")?.as_array()?.iter().map(|s| crate::rng::unhex(s.as_str()?)?.try_into().ok()).collect::<Option<Vec<[u8; 32]>>>()?,
            slots: v.get("slots")?.as_u64()? as usize,
            steps: v
                .get("steps")?
                .as_array()?
                .iter()
                .map(|x| {
                    Some(match x.get("op")?.as_str()? {
                        "sign" => Step::Sign { slot: u(x, "slot")?, msg: crate::rng::msg_unhex(x.get("msg_hex")?.as_str()?)?, stream: x.get("stream")?.as_u64()? },
                        "swap" => Step::Swap { a: u(x, "a")?, b: u(x, "b")? },
                        "replace" => Step::Replace { slot: u(x, "slot")?, k: u(x, "k")? },
                        "reinsert" => Step::Reinsert { from: u(x, "from")?, to: u(x, "to")? },
                        "copy_over" => Step::CopyOver { from: u(x, "from")?, to: u(x, "to")? },
                        _ => return None,
                    })
                })
                .collect::<Option<Vec<_>>>()?,
        })
    }
    fn draw(rng: &mut Prng, n: usize, key_seeds: Vec<[u8; 32]>) -> RotationPlan {
        let slots = 3.min(key_seeds.len());
        let nsteps = 30 + rng.usize_below(30);
        let mut steps = Vec::new();
        for _ in 0..nsteps {
            let st = match rng.below(10) {
                0..=4 => Step::Sign { slot: rng.usize_below(slots), msg: rng.bytes(20), stream: rng.next_u64() },
                5 | 6 => Step::Swap { a: rng.usize_below(slots), b: rng.usize_below(slots) },
                7 => Step::Replace { slot: rng.usize_below(slots), k: rng.usize_below(key_seeds.len()) },
                8 => Step::Reinsert { from: rng.usize_below(slots), to: rng.usize_below(slots) },
                _ => Step::CopyOver { from: rng.usize_below(slots), to: rng.usize_below(slots) },
            };
            steps.push(st);
        }
        RotationPlan { n, key_seeds, slots, steps }
    }
}

/// `keys[i]` = key pair of `plan.key_seeds[i]`; returns the first violated expectation
fn run_rotation<V: Variant>(plan: &RotationPlan, keys: Vec<(V::Sk, V::Pk)>, st: &mut Stats) -> Option<(String, String)> {
    let n = V::N;
    // (secret key, public key, index of the key pair) per slot; the public key travels with its secret key
    let mut table: Vec<(V::Sk, V::Pk, usize)> = Vec::new();
    for i in 0..plan.slots {
        table.push((keys[i].0.clone(), keys[i].1.clone(), i));
    }
    let mut kept: Vec<(V::Sk, V::Pk, usize)> = Vec::new();
    for (i, step) in plan.steps.iter().enumerate() {
        match step {
            Step::Sign { slot, msg, stream } => {
                st.evaluations += 1;
                let (r, _) = world::sign_sim::<V>(&table[*slot].0, msg, &world::SignPlan::uniform(*stream), None);
                match r {
                    Ok(sig) => match crate::guard::guarded(|| V::verify(msg, &sig, &table[*slot].1)) {
                        Ok(true) => st.inc("verified"),
                        Ok(false) => return Some((format!("honest signature{} rejected by verify", n), format!("step {}: slot {} holds key {} after the keys of the table changed places", i, slot, table[*slot].2))),
                        Err(u) => return Some((format!("verify{} {} on an honest signature", n, u.signature()), format!("step {}", i))),
                    },
                    Err(Unwind::NoProgress { .. }) => return Some((format!("sign{} makes no progress within its step bound", n), format!("step {}", i))),
                    Err(Unwind::Code { location, message }) => return Some((format!("sign{} unwinds at {}", n, location), format!("step {}: {}", i, message))),
                }
            }
            Step::Swap { a, b } => {
                st.inc("rotation.swap");
                table.swap(*a, *b);
            }
            Step::Replace { slot, k } => {
                st.inc("rotation.replace");
                let fresh = (keys[*k].0.clone(), keys[*k].1.clone(), *k);
                let old = std::mem::replace(&mut table[*slot], fresh);
                kept.push(old);
            }
            Step::Reinsert { from, to } => {
                st.inc("rotation.reinsert");
                let e = table.remove(*from);
                let to = (*to).min(table.len());
                table.insert(to, e);
            }
            Step::CopyOver { from, to } => {
                st.inc("rotation.copy_over");
                if from != to {
                    let c = (table[*from].0.clone(), table[*from].1.clone(), table[*from].2);
                    table[*to] = c;
                }
            }
        }
    }
    drop(kept);
    None
}

fn rotation_run(seed: u64, run: u64, p512: &KeyPool<V512>, p1024: &KeyPool<V1024>) -> RunOutcome {
    let mut rng = Prng::new(report::run_seed(seed, "C01rotation", run));
    let mut out = RunOutcome::default();
    out.stats.inc("runs");
    out.stats.inc("runs.keys_changing_places");
    fn go<V: Variant>(rng: &mut Prng, pool: &KeyPool<V>, out: &mut RunOutcome, run: u64) {
        let nk = 4.min(pool.keys.len());
        let first = rng.usize_below(pool.keys.len());
        let idx: Vec<usize> = (0..nk).map(|i| (first + i) % pool.keys.len()).collect();
        let mut keys = Vec::new();
        for &i in &idx {
            match pool.keys[i].load() {
                Ok(kp) => keys.push(kp),
                Err(_) => {
                    out.stats.inc("harness.pool_key_not_loadable");
                    return;
                }
            }
        }
        let plan = RotationPlan::draw(rng, V::N, idx.iter().map(|&i| pool.keys[i].seed).collect());
        if let Some((class, detail)) = run_rotation::<V>(&plan, keys, &mut out.stats) {
            out.violations.push(Violation { property: PROP, class, detail, replay: plan.to_json(), run });
        }
    }
    if rng.chance(1, 4) {
        go::<V1024>(&mut rng, p1024, &mut out, run);
    } else {
        go::<V512>(&mut rng, p512, &mut out, run);
    }
    out
}

fn replay_rotation(doc: &Value) -> Option<String> {
    let plan = RotationPlan::from_json(doc)?;
    fn go<V: Variant>(plan: &RotationPlan) -> Option<String> {
        let mut keys = Vec::new();
        for s in &plan.key_seeds {
            keys.push(world::keygen_sim::<V>(*s, None, None).0.ok()?);
        }
        let mut st = Stats::default();
        run_rotation::<V>(plan, keys, &mut st).map(|c| c.0)
    }
    if plan.n == 512 {
        go::<V512>(&plan)
    } else {
        go::<V1024>(&plan)
    }
}

/// "<n> <seed hex> <root>" lines of corpus/C01/selected-seeds.txt
pub fn selected_seeds_corpus() -> Vec<(usize, [u8; 32], String)> {
    let p = report::verif_root().join("corpus").join(PROP).join("selected-seeds.txt");
    let mut v = Vec::new();
    if let Ok(s) = std::fs::read_to_string(p) {
        for l in s.lines() {
            let l = l.trim();
            if l.is_empty() || l.starts_with('#') {
                continue;
            }
            let mut it = l.split_whitespace();
            if let (Some(a), Some(b), Some(c)) = (it.next(), it.next(), it.next()) {
                if let (Ok(n), Some(seed)) = (a.parse::<usize>(), crate::rng::unhex(b).and_then(|x| <[u8; 32]>::try_from(x).ok())) {
                    if n == 512 || n == 1024 {
                        // the rest of the line says why the seed was selected
                        let why = std::iter::once(c).chain(it).collect::<Vec<_>>().join(" ");
                        v.push((n, seed, why));
                    }
                }
            }
        }
    }
    v
}

/// A key whose seed was selected with the reference model of key generation's candidate stream
/// (`reference::keygen`): the first candidate's f vanishes at an end root of X^n + 1 mod q, so key
/// generation has to discard it. The key is generated here, from the seed, and signs three messages.
fn selected_seed_run(seed: u64, idx: u64, n: usize, key_seed: [u8; 32], why: &str) -> RunOutcome {
    let mut rng = Prng::new(report::run_seed(seed, "C01selected", idx));
    let ops: Vec<Op> = (0..3).map(|_| Op::Sign { key: 0, msg: world::message(&mut rng), stream: rng.next_u64(), mode: Some(Mode::Uniform), norm_rejects: 0, compress_fails: 0 }).collect();
    let plan = WorldPlan { n, key_seeds: vec![key_seed], sched_seed: rng.next_u64(), switch_exp: None, boundary: 0, threads: vec![ops], align: None };
    let mut out = RunOutcome::default();
    match run_plan_dyn(&plan) {
        Some(v) => {
            out.stats = v.stats;
            if let Some((class, detail)) = v.class {
                out.violations.push(Violation { property: PROP, class, detail: format!("{} (key seed selected with the candidate model: {})", detail, why), replay: plan.to_json(), run: (1 << 41) + 500 + idx });
            }
        }
        None => {
            out.violations.push(Violation {
                property: PROP,
                class: format!("keygen{} fails on a seed", n),
                detail: format!("key seed {} (selected with the candidate model: {})", hex(&key_seed), why),
                replay: plan.to_json(),
                run: (1 << 41) + 500 + idx,
            });
        }
    }
    out.stats.inc("runs");
    out.stats.inc(&format!("runs.selected_key_seeds.{}", n));
    out
}

pub fn replay(doc: &Value) -> Option<String> {
    if doc.get("kind").and_then(|k| k.as_str()) == Some("deep-rerun") {
        return replay_deep_rerun(doc);
    }
    if doc.get("kind").and_then(|k| k.as_str()) == Some("mixed") {
        return replay_mixed(doc);
    }
    if doc.get("kind").and_then(|k| k.as_str()) == Some("rotation") {
        return replay_rotation(doc);
    }
    let plan = WorldPlan::from_json(doc)?;
    run_plan_dyn(&plan)?.class.map(|c| c.0)
}

pub struct Ctx {
    pub p512: KeyPool<V512>,
    pub p1024: KeyPool<V1024>,
    pub runs512: u64,
    pub runs1024: u64,
    pub runs_mixed: u64,
    pub runs_rotation: u64,
}

pub fn context(tier: Tier, seed: u64) -> Result<Ctx, String> {
    let w = report::workers();
    let (runs512, runs1024, k512, k1024) = match tier {
        Tier::Quick => (1300u64, 300u64, 24, 24),
        Tier::Thorough => (40000u64, 10000u64, 48, 16),
    };
    let pseed = report::run_seed(seed, "pool", 0);
    let p512: KeyPool<V512> = KeyPool::build(pseed, k512, 1, w);
    let p1024: KeyPool<V1024> = KeyPool::build(pseed ^ 0x1024, k1024, 1, w);
    for (n, fails, nkeys) in [(512, p512.failures.len(), p512.keys.len()), (1024, p1024.failures.len(), p1024.keys.len())] {
        if fails > 0 || nkeys == 0 {
            return Err(format!("key pool for variant {} could not be built ({} failures)", n, fails));
        }
    }
    let runs_mixed = (runs512 + runs1024) / 8;
    let runs_rotation = (runs512 + runs1024) / 16;
    Ok(Ctx { p512, p1024, runs512, runs1024, runs_mixed, runs_rotation })
}

fn dispatch(ctx: &Ctx, seed: u64, run: u64) -> RunOutcome {
    // the expensive Falcon-1024 runs are scheduled first
    if run < ctx.runs1024 {
        one_run::<V1024>(seed, run, &ctx.p1024)
    } else if run < ctx.runs1024 + ctx.runs512 {
        one_run::<V512>(seed, run, &ctx.p512)
    } else if run < ctx.runs1024 + ctx.runs512 + ctx.runs_mixed {
        mixed_run(seed, run, &ctx.p512, &ctx.p1024)
    } else {
        rotation_run(seed, run, &ctx.p512, &ctx.p1024)
    }
}

pub fn runner(tier: Tier, seed: u64) -> Option<(u64, Box<dyn Fn(u64) -> RunOutcome + Sync>)> {
    let ctx = context(tier, seed).ok()?;
    let n = ctx.runs512 + ctx.runs1024 + ctx.runs_mixed + ctx.runs_rotation;
    Some((n, Box::new(move |run| dispatch(&ctx, seed, run))))
}

pub fn rerun(tier: Tier, seed: u64, run: u64) -> Option<RunOutcome> {
    let ctx = context(tier, seed).ok()?;
    Some(dispatch(&ctx, seed, run))
}

pub fn check(tier: Tier, seed: u64) -> i32 {
    let mut rep = Report::new(PROP, tier, seed);
    let w = report::workers();
    let ctx = match context(tier, seed) {
        Ok(c) => c,
        Err(e) => {
            eprintln!("HARNESS-ERROR: {}", e);
            return 2;
        }
    };
    let out = report::parallel_runs(ctx.runs512 + ctx.runs1024 + ctx.runs_mixed + ctx.runs_rotation, w, |run| dispatch(&ctx, seed, run));
    rep.absorb(out);
    // deep batch (function-entry yield points), executed by the instrumented build if the check script produced one
    match std::env::var("VERIF_DEEP_BIN").ok().filter(|p| std::path::Path::new(p).exists()) {
        Some(bin) => {
            let tmp = report::verif_root().join("sim").join("target").join(format!("deep-{}.out", std::process::id()));
            let _ = std::fs::create_dir_all(tmp.parent().unwrap());
            let st = std::process::Command::new(&bin).args(["deepruns", "C01", tier.name(), &seed.to_string(), tmp.to_str().unwrap()]).status();
            let ok = st.map(|s| s.success()).unwrap_or(false);
            match std::fs::read(&tmp).ok().and_then(|b| RunOutcome::from_bytes(&b)) {
                Some(o) if ok => rep.absorb(o),
                _ => {
                    eprintln!("HARNESS-ERROR: the deep batch did not deliver a result");
                    let _ = std::fs::remove_file(&tmp);
                    return 2;
                }
            }
            let _ = std::fs::remove_file(&tmp);
        }
        None => {
            rep.stats.notes.insert("NOTE: no instrumented (deep) build available; the function-entry pre-emption batch was skipped".into());
        }
    }
    // key seeds selected with the reference model of key generation's candidate stream: the pinned ones
    // (corpus/C01/selected-seeds.txt, found by an offline scan of 400000 seeds per variant with the same
    // model) and, in the thorough tier, fresh ones selected at run time
    {
        let mut jobs: Vec<(usize, [u8; 32], String)> = selected_seeds_corpus();
        rep.stats.add("selected_key_seeds.pinned", jobs.len() as u64);
        if tier == Tier::Thorough {
            let scan = 60_000u64;
            for n in [512usize, 1024] {
                for (s, r) in world::mine_keygen_seeds(seed, n, scan, 64, w) {
                    jobs.push((n, s, format!("root {} (selected at run time)", r)));
                }
            }
            rep.stats.add("key_seeds_scanned_with_the_candidate_model", 2 * scan);
        }
        let out = report::parallel_runs(jobs.len() as u64, w, |i| {
            let (n, s, r) = &jobs[i as usize];
            selected_seed_run(seed, i, *n, *s, r)
        });
        rep.absorb(out);
    }
    if rep.stats.counters.get("harness.pool_key_not_loadable").copied().unwrap_or(0) > 0 {
        eprintln!("HARNESS-ERROR: pool keys could not be decoded by SecretKey/PublicKey::from_bytes on this tree (see C05)");
        return 2;
    }
    rep.rule = "a case is one sign (or verifier-thread verify) operation inside a seeded multi-thread plan: 1-8 signer threads and 0-2 verifier threads share one key under the baton scheduler (pre-emption probability 2^-k per entropy draw, k in 3..20 chosen per run from a budget of 10..6000 expected switches, plus operation boundaries), each sign with its own simulator entropy stream in mode E1/E2/E3/E4 and optional buggify-forced retries; a deep batch run by a build in which every function entry of the code under test is a yield point (falcon-rust compiled with -Zinstrument-mcount) puts 2-6 signer/verifier threads on 24+ distinct keys so that the scheduler can pre-empt inside verify and the decoders; a few dozen keys come from seeds selected (offline among 400000 per variant and pinned in corpus/C01/selected-seeds.txt; in the thorough tier also among 60000 fresh ones per variant at run time) with a reference model of key generation's candidate stream because the first candidate's f vanishes at an end root of X^n+1 mod q and must be discarded; a sixteenth of the runs are single-thread runs in which 3-4 keys held in a table change places (swap, replace-and-keep, remove-and-reinsert, overwrite with a copy) between sign calls; a further eighth of the runs are mixed-variant runs in which the same threads alternate between a Falcon-512 and a Falcon-1024 key (sign, then verify on the same thread); non-trivial = the call was pre-empted mid-call, or took a natural or forced retry, or had an entropy fault land; distinct = distinct (schedule trace, thread, resulting signature)".into();
    rep.assumptions = vec![
        "all of sign's randomness flows through the hooked generator (hook H1); a generator created elsewhere is only visible to C08(b) and to the interleaved==sequential comparison".into(),
        "keys come from a per-invocation pool generated by the current tree".into(),
        "bounded liveness: a sign call is stopped after ~60x its usual number of entropy draws".into(),
    ];
    rep.components = json!({
        "real": ["sign (ffsampling, sampler_z, compress)", "verify", "Signature::to_bytes/from_bytes", "keygen (pool)", "std threads + thread_local"],
        "stub": ["thread scheduler (baton)", "ambient entropy (simulator stream with fault modes, hook H1)", "retry branches (buggify, hook H3)"],
        "model": ["reference sampler prologue (only to aim forced ties)"],
    });
    rep.finish(report::confirm_in_fresh_process)
}
