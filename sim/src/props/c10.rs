//! C10 — signatures are spherical Gaussian. For each of K keys a signer
//! produces a history of M signatures over distinct messages under healthy
//! simulated entropy (E1, no buggify), interleaved over 1-4 baton-scheduled
//! threads. The harness decodes s2, recomputes s1 = c - s2*h with its own
//! arithmetic, recovers (f, g, F) from the secret-key bytes and G from the NTRU
//! equation, and accumulates first and second moments of <s, u> along the 2n
//! normalised basis rows and the 2n Gram-Schmidt (ffLDL leaf) directions.

use crate::entropy::Mode;
use crate::reference::codec;
use crate::reference::fft::{self, C};
use crate::reference::field::{centred, schoolbook_z, Ntt};
use crate::reference::specverify::hash_to_point;
use crate::report::{self, Report, RunOutcome, Stats, Tier, Violation};
use crate::rng::{hash_bytes, hex, Prng};
use crate::signers::{self, Keys, Op, OpResult, WorldPlan};
use crate::variant::{Variant, V1024, V512};
use crate::world::KeyPool;
use serde_json::{json, Value};
use std::sync::Arc;

pub const PROP: &str = "C10";

pub struct Basis {
    pub n: usize,
    pub f: Vec<i64>,
    pub g: Vec<i64>,
    pub cf: Vec<i64>,
    pub cg: Vec<i64>,
    pub h: Vec<i64>,
    f_hat: Vec<C>,
    g_hat: Vec<C>,
    cf_hat: Vec<C>,
    cg_hat: Vec<C>,
    pub tree: fft::Tree,
    pub gs_norms: Vec<f64>,
    pub row_norm_fg: f64,
    pub row_norm_cfg: f64,
    /// sum of squared eigenvalues of the (normalised) Gram operator of each row
    /// class divided by n^2: the variance factor of the pooled second moment
    pub row_pool_var: [f64; 2],
}

fn tofloat(v: &[i64]) -> Vec<f64> {
    v.iter().map(|&x| x as f64).collect()
}

impl Basis {
    /// from the serialised keys; Err if the bytes do not describe an NTRU basis
    pub fn from_bytes(n: usize, sk: &[u8], pk: &[u8]) -> Result<Basis, String> {
        let p = codec::params(n);
        let k = codec::sk_decode(p, sk).map_err(|e| format!("secret key bytes not canonical: {:?}", e))?;
        let h = codec::pk_decode(p, pk).map_err(|e| format!("public key bytes not canonical: {:?}", e))?;
        let f_hat = fft::fft(&tofloat(&k.f));
        let g_hat = fft::fft(&tofloat(&k.g));
        let cf_hat = fft::fft(&tofloat(&k.cf));
        // G = (q + g F) / f
        let q = C::new(12289.0, 0.0);
        let cg_hat_f: Vec<C> = (0..n).map(|i| (q + g_hat[i] * cf_hat[i]) / f_hat[i]).collect();
        let cg: Vec<i64> = fft::ifft(&cg_hat_f).iter().map(|x| x.round() as i64).collect();
        // exact check over Z: f G - g F = q
        let a = schoolbook_z(&k.f, &cg);
        let b = schoolbook_z(&k.g, &k.cf);
        for i in 0..n {
            let want = if i == 0 { 12289 } else { 0 };
            if a[i] - b[i] != want {
                return Err("f*G - g*F != q for the G recovered from the key bytes".into());
            }
        }
        let cg_hat = fft::fft(&tofloat(&cg));
        // Gram matrix of B = [[g, -f], [G, -F]]
        let g00: Vec<C> = (0..n).map(|i| C::new(g_hat[i].norm2() + f_hat[i].norm2(), 0.0)).collect();
        let g01: Vec<C> = (0..n).map(|i| g_hat[i] * cg_hat[i].conj() + f_hat[i] * cf_hat[i].conj()).collect();
        let g11: Vec<C> = (0..n).map(|i| C::new(cg_hat[i].norm2() + cf_hat[i].norm2(), 0.0)).collect();
        let tree = fft::ffldl(&g00, &g01, &g11);
        let mut gs_norms = Vec::new();
        fft::leaf_norms(&tree, &mut gs_norms);
        let sq = |v: &[i64]| v.iter().map(|x| (x * x) as f64).sum::<f64>();
        // pooled statistic of a row class = s^T A s / (n sigma^2) with A = sum of the n unit-row projectors;
        // its eigenvalues are lambda_j = (|a_j|^2 + |b_j|^2) / ||row||^2 over the n FFT points, so for a
        // spherical Gaussian its variance per signature is 2 * sum(lambda_j^2) / n^2
        let pool_var = |a: &[C], b: &[C], norm2: f64| (0..n).map(|i| ((a[i].norm2() + b[i].norm2()) / norm2).powi(2)).sum::<f64>() * 2.0 / (n * n) as f64;
        let row_pool_var = [pool_var(&g_hat, &f_hat, sq(&k.f) + sq(&k.g)), pool_var(&cg_hat, &cf_hat, sq(&k.cf) + sq(&cg))];
        Ok(Basis {
            n,
            row_norm_fg: (sq(&k.f) + sq(&k.g)).sqrt(),
            row_norm_cfg: (sq(&k.cf) + sq(&cg)).sqrt(),
            row_pool_var,
            f: k.f,
            g: k.g,
            cf: k.cf,
            cg,
            h,
            f_hat,
            g_hat,
            cf_hat,
            cg_hat,
            tree,
            gs_norms,
        })
    }

    /// projections of s = (s1, s2) on the 4n unit directions: 2n normalised
    /// basis rows (rotations of (g,-f), then of (G,-F)), then 2n Gram-Schmidt
    /// directions (ffLDL leaf order)
    pub fn project(&self, s1: &[i64], s2: &[i64]) -> Vec<f64> {
        let n = self.n;
        let s1h = fft::fft(&tofloat(s1));
        let s2h = fft::fft(&tofloat(s2));
        // <s, x^k (g,-f)> = (s1*adj(g) - s2*adj(f))_k
        let r0: Vec<C> = (0..n).map(|i| s1h[i] * self.g_hat[i].conj() - s2h[i] * self.f_hat[i].conj()).collect();
        let r1: Vec<C> = (0..n).map(|i| s1h[i] * self.cg_hat[i].conj() - s2h[i] * self.cf_hat[i].conj()).collect();
        let mut out: Vec<f64> = fft::ifft(&r0).iter().map(|x| x / self.row_norm_fg).collect();
        out.extend(fft::ifft(&r1).iter().map(|x| x / self.row_norm_cfg));
        // (t - z) = s * B^-1,  B^-1 = 1/q [[-F, f], [-G, g]]
        let q = 12289.0;
        let n0: Vec<C> = (0..n).map(|i| C::new(-1.0 / q, 0.0) * (s1h[i] * self.cf_hat[i] + s2h[i] * self.cg_hat[i])).collect();
        let n1: Vec<C> = (0..n).map(|i| C::new(1.0 / q, 0.0) * (s1h[i] * self.f_hat[i] + s2h[i] * self.g_hat[i])).collect();
        fft::noise_coordinates(&self.tree, &n0, &n1, &mut out);
        out
    }
}

/// Outcome of the reference signer on one tape.
pub struct RefSignature {
    pub salt: [u8; 40],
    pub s1: Vec<i64>,
    pub s2: Vec<i64>,
    pub sampler_calls: u64,
}

impl Basis {
    /// ffSampling (specification Algorithm 11) on the harness's own tree and FFT, with the
    /// reference SamplerZ on `tape`. Order of the sampler calls: right subtree (z1) before left, and
    /// at a bottom node the even half before the odd half - the order of the specification.
    fn ffsampling(&self, t0: &[C], t1: &[C], tree: &fft::Tree, sigma: f64, sigmin: f64, tape: &mut dyn FnMut() -> u8, calls: &mut u64) -> (Vec<C>, Vec<C>) {
        use crate::reference::keygen::sampler_z;
        match tree {
            fft::Tree::Node { l10, left, right } => {
                if t0.len() == 1 {
                    if let (fft::Tree::Leaf(dl), fft::Tree::Leaf(dr)) = (left.as_ref(), right.as_ref()) {
                        // the two leaves of a bottom node are the same number (the odd part of a
                        // self-adjoint element of R[x]/(x^2+1) vanishes), and l10 = 0
                        *calls += 2;
                        let z0 = sampler_z(t0[0].re, sigma / dl.sqrt(), sigmin, tape);
                        let z1 = sampler_z(t1[0].re, sigma / dr.sqrt(), sigmin, tape);
                        return (vec![C::new(z0 as f64, 0.0)], vec![C::new(z1 as f64, 0.0)]);
                    }
                }
                let (e, o) = fft::split(t1);
                let (ze, zo) = self.ffsampling(&e, &o, right, sigma, sigmin, tape, calls);
                let z1 = fft::merge(&ze, &zo);
                let t0p = fft::padd(t0, &fft::pmul(&fft::psub(t1, &z1), l10));
                let (e, o) = fft::split(&t0p);
                let (ze, zo) = self.ffsampling(&e, &o, left, sigma, sigmin, tape, calls);
                (fft::merge(&ze, &zo), z1)
            }
            fft::Tree::Leaf(_) => (t0.to_vec(), t1.to_vec()),
        }
    }

    /// The specification's Sign (Algorithm 10) executed by the harness's own arithmetic on a byte
    /// tape, in the tape layout of falcon-rust's sign (40 bytes of salt; per compression attempt 32
    /// bytes that are not used; 17 bytes per sampler iteration). On a uniform tape the result follows
    /// the law the property is about, whatever the tape layout of the implementation under test; if
    /// the implementation consumes its entropy in this layout the two signatures are equal.
    pub fn ref_sign(&self, msg: &[u8], sigma: f64, sigmin: f64, bound: i64, sig_len: usize, tape: &mut dyn FnMut() -> u8) -> RefSignature {
        let n = self.n;
        let mut salt = [0u8; 40];
        for b in salt.iter_mut() {
            *b = tape();
        }
        let mut sm = salt.to_vec();
        sm.extend_from_slice(msg);
        let c = hash_to_point(&sm, n);
        let ch = fft::fft(&tofloat(&c));
        let q = 12289.0;
        let t0: Vec<C> = (0..n).map(|i| C::new(1.0 / q, 0.0) * ch[i] * self.cf_hat[i]).collect();
        let t1: Vec<C> = (0..n).map(|i| C::new(-1.0 / q, 0.0) * ch[i] * self.f_hat[i]).collect();
        let mut calls = 0u64;
        loop {
            for _ in 0..32 {
                tape();
            }
            let s2 = loop {
                let (z0, z1) = self.ffsampling(&t0, &t1, &self.tree, sigma, sigmin, tape, &mut calls);
                let d0 = fft::psub(&t0, &z0);
                let d1 = fft::psub(&t1, &z1);
                let s0 = fft::padd(&fft::pmul(&d0, &self.g_hat), &fft::pmul(&d1, &self.cg_hat));
                let s1 = fft::padd(&fft::pmul(&d0, &self.f_hat), &fft::pmul(&d1, &self.cf_hat));
                let len2 = (s0.iter().map(|x| x.norm2()).sum::<f64>() + s1.iter().map(|x| x.norm2()).sum::<f64>()) / n as f64;
                if len2 > bound as f64 {
                    continue;
                }
                break fft::ifft(&s1).iter().map(|x| x.round() as i64).collect::<Vec<i64>>();
            };
            if codec::compress(&s2, sig_len - 41).is_none() {
                continue;
            }
            let ntt = Ntt::new(n);
            let prod = ntt.mul(&s2, &self.h);
            let s1: Vec<i64> = (0..n).map(|i| centred(c[i] - prod[i])).collect();
            return RefSignature { salt, s1, s2, sampler_calls: calls };
        }
    }
}

/// recover (s1, s2) from a signature with the harness's own arithmetic
pub fn recover(n: usize, ntt: &Ntt, h: &[i64], msg: &[u8], sig: &[u8]) -> Option<(Vec<i64>, Vec<i64>)> {
    if sig.len() < 41 {
        return None;
    }
    let s2 = codec::decompress(&sig[41..], n).ok()?;
    let mut sm = sig[1..41].to_vec();
    sm.extend_from_slice(msg);
    let c = hash_to_point(&sm, n);
    let prod = ntt.mul(&s2, h);
    let s1: Vec<i64> = (0..n).map(|i| centred(c[i] - prod[i])).collect();
    Some((s1, s2))
}

/// accumulators of one key: count, per-direction sum and sum of squares, norm sums
#[derive(Clone)]
pub struct Acc {
    pub m: u64,
    pub sum: Vec<f64>,
    pub sq: Vec<f64>,
    /// sums of products of Gram-Schmidt coordinates i and i+lag (lag 1..=3), 3 x 2n values
    pub cross: Vec<f64>,
    pub norm_sum: f64,
    pub over_bound: u64,
    pub max_norm: i64,
    // comparison with the reference signer on the same tapes
    /// signatures for which a reference signature was made
    pub rm: u64,
    /// of those, byte-identical (s2 and salt)
    pub identical: u64,
    pub ref_norm_sum: f64,
    /// sum and sum of squares of (||s||^2 - ||s_ref||^2)
    pub dn_sum: f64,
    pub dn_sq: f64,
    /// per direction: sum and sum of squares of (<s,u>^2 - <s_ref,u>^2)
    pub dsq_sum: Vec<f64>,
    pub dsq_sq: Vec<f64>,
    // dependence between signatures: normalised inner products <s, s'>/(2n sigma^2) of the k-th signatures
    // of two threads of one run (count, sum, sum of squares) and of consecutive signatures of one thread
    pub cx: [f64; 3],
    pub l1: [f64; 3],
    /// sibling leaves: per signature, sum over bottom nodes of w * (v_left^2 - v_right^2) / sigma^2 with
    /// w = d_left/d_right - d_right/d_left (each leaf serves two coordinates), real minus reference
    /// (count, sum, sum of squares)
    pub sib: [f64; 3],
    /// lag spectrum of the standardised Gram-Schmidt coordinates inside one signature:
    /// lag[L] = sum over signatures and i of z_i * z_(i+L), L = 1 .. 2n-1 (index 0 unused)
    pub lag: Vec<f64>,
}

const ACC_HEAD: usize = 19;

impl Acc {
    fn new(dirs: usize) -> Acc {
        Acc {
            m: 0,
            sum: vec![0.0; dirs],
            sq: vec![0.0; dirs],
            cross: vec![0.0; 3 * dirs / 2],
            norm_sum: 0.0,
            over_bound: 0,
            max_norm: 0,
            rm: 0,
            identical: 0,
            ref_norm_sum: 0.0,
            dn_sum: 0.0,
            dn_sq: 0.0,
            dsq_sum: vec![0.0; dirs],
            dsq_sq: vec![0.0; dirs],
            cx: [0.0; 3],
            l1: [0.0; 3],
            sib: [0.0; 3],
            lag: vec![0.0; dirs / 2],
        }
    }
    fn to_blob(&self) -> Vec<u8> {
        let mut b = Vec::new();
        b.extend_from_slice(&self.m.to_le_bytes());
        b.extend_from_slice(&self.norm_sum.to_le_bytes());
        b.extend_from_slice(&self.over_bound.to_le_bytes());
        b.extend_from_slice(&self.max_norm.to_le_bytes());
        b.extend_from_slice(&self.rm.to_le_bytes());
        b.extend_from_slice(&self.identical.to_le_bytes());
        b.extend_from_slice(&self.ref_norm_sum.to_le_bytes());
        b.extend_from_slice(&self.dn_sum.to_le_bytes());
        b.extend_from_slice(&self.dn_sq.to_le_bytes());
        b.extend_from_slice(&0u64.to_le_bytes());
        for v in self.cx.iter().chain(self.l1.iter()).chain(self.sib.iter()) {
            b.extend_from_slice(&v.to_le_bytes());
        }
        for v in self.sum.iter().chain(self.sq.iter()).chain(self.cross.iter()).chain(self.dsq_sum.iter()).chain(self.dsq_sq.iter()).chain(self.lag.iter()) {
            b.extend_from_slice(&v.to_le_bytes());
        }
        b
    }
    fn add_blob(&mut self, b: &[u8]) {
        let u = |i: usize| u64::from_le_bytes(b[8 * i..8 * i + 8].try_into().unwrap());
        let f = |i: usize| f64::from_le_bytes(b[8 * i..8 * i + 8].try_into().unwrap());
        self.m += u(0);
        self.norm_sum += f(1);
        self.over_bound += u(2);
        self.max_norm = self.max_norm.max(u(3) as i64);
        self.rm += u(4);
        self.identical += u(5);
        self.ref_norm_sum += f(6);
        self.dn_sum += f(7);
        self.dn_sq += f(8);
        for i in 0..3 {
            self.cx[i] += f(10 + i);
            self.l1[i] += f(13 + i);
            self.sib[i] += f(16 + i);
        }
        let d = self.sum.len();
        let c = self.cross.len();
        for i in 0..d {
            self.sum[i] += f(ACC_HEAD + i);
            self.sq[i] += f(ACC_HEAD + d + i);
            self.dsq_sum[i] += f(ACC_HEAD + 2 * d + c + i);
            self.dsq_sq[i] += f(ACC_HEAD + 3 * d + c + i);
        }
        for i in 0..c {
            self.cross[i] += f(ACC_HEAD + 2 * d + i);
        }
        for i in 0..self.lag.len() {
            self.lag[i] += f(ACC_HEAD + 4 * d + c + i);
        }
    }
}

fn run_chunk<V: Variant, W: Variant>(seed: u64, run: u64, key_index: usize, chunk: u64, pool: &KeyPool<V>, per_chunk: usize, warm: Option<&crate::world::KeyEntry<W>>) -> RunOutcome {
    let mut out = RunOutcome::default();
    let mut st = Stats::default();
    st.inc("runs");
    let n = V::N;
    // warm-up: the very first signature of this process is made with a key of the OTHER variant
    // (state kept per process and not keyed by the variant would be initialised by it)
    if let Some(w) = warm {
        if let Ok((wsk, _)) = w.load() {
            let _ = crate::world::sign_sim::<W>(&wsk, b"warm-up with the other variant", &crate::world::SignPlan::uniform(run ^ 0x77), None);
            st.inc("warmups_with_other_variant");
        }
    }
    // history (every other run): everything happens on ONE thread, the run's own - an earlier key of the
    // same variant is loaded, signs once and is dropped; then the key under test is loaded (it tends to
    // land where the earlier key was) and signs the whole history. A per-thread table keyed by an
    // address, or by anything else a later key can share with an earlier one, would serve the later key
    // the earlier key's data.
    let rotation = chunk % 2 == 1 && pool.keys.len() > 1;
    if rotation {
        let other = &pool.keys[(key_index + 1) % pool.keys.len()];
        if let Ok(okp) = other.load() {
            let held: Keys<V> = Arc::new(vec![okp]);
            let _ = crate::world::sign_sim::<V>(&held[0].0, b"an earlier key of the same variant", &crate::world::SignPlan::uniform(run ^ 0x55), None);
            st.inc("histories_with_an_earlier_key_of_the_same_variant");
            drop(held);
        }
    }
    let k = &pool.keys[key_index];
    let kp = match k.load() {
        Ok(kp) => kp,
        Err(e) => {
            st.inc("harness.pool_key_not_loadable");
            st.notes.insert(e);
            out.stats = st;
            return out;
        }
    };
    let basis = match Basis::from_bytes(n, &k.sk_bytes, &k.pk_bytes) {
        Ok(b) => b,
        Err(e) => {
            // the key itself is not an NTRU basis in canonical encoding: C04/C05 territory
            st.inc("harness.basis_not_recoverable");
            st.notes.insert(e);
            out.stats = st;
            return out;
        }
    };
    let keys: Keys<V> = Arc::new(vec![kp]);
    let mut rng = Prng::new(report::run_seed(seed, PROP, run));
    let nthreads = if rotation { 1 } else { 1 + rng.usize_below(4) };
    let mut threads: Vec<Vec<Op>> = vec![Vec::new(); nthreads];
    for i in 0..per_chunk {
        // distinct messages: key, chunk, index
        let mut msg = format!("C10 message {} {} {} ", key_index, chunk, i).into_bytes();
        let extra = rng.usize_below(40);
        msg.extend_from_slice(&rng.bytes(extra));
        threads[i % nthreads].push(Op::Sign { key: 0, msg, stream: rng.next_u64(), mode: Some(Mode::Uniform), norm_rejects: 0, compress_fails: 0 });
    }
    let plan = WorldPlan {
        n,
        key_seeds: vec![k.seed],
        sched_seed: rng.next_u64(),
        switch_exp: if nthreads == 1 { None } else { Some(*rng.pick(&[12u32, 14, 16])) },
        boundary: 64,
        threads,
        align: None,
    };
    let (res, sched) = if rotation {
        // on this thread, without the scheduler
        let mut v = Vec::new();
        for (oi, op) in plan.threads[0].iter().enumerate() {
            if let (Op::Sign { msg, .. }, Some(sp)) = (op, op.sign_plan()) {
                // the later signatures are made through fresh clones of the key (a clone per request):
                // whatever a key object carries besides the key must not be shared by its copies
                // (second half of the history only: the first half stays with the one key object, at its one
                // address, so that whatever was remembered about an earlier occupant of that address stays in use)
                let through_clone = if oi >= plan.threads[0].len() / 2 { Some(keys[0].0.clone()) } else { None };
                let signer = through_clone.as_ref().unwrap_or(&keys[0].0);
                let (r, trace) = crate::world::sign_sim::<V>(signer, msg, &sp, None);
                v.push(match r {
                    Ok(sig) => OpResult::Sig { bytes: V::sig_to_bytes(&sig), trace, preempted: 0 },
                    Err(u) => OpResult::Unwound(u),
                });
            }
        }
        (vec![Ok(v)], crate::sched::SchedStats::default())
    } else {
        signers::execute::<V>(&plan, keys)
    };
    if sched.free_running {
        st.inc("inconclusive.schedule_infeasible");
        out.stats = st;
        return out;
    }
    st.steps += sched.steps;
    st.add("sched.switches", sched.switches);
    st.add("sched.lock_handoffs", sched.lock_handoffs);
    if sched.switches > 0 {
        st.interleavings.insert(sched.trace_hash);
    }
    let ntt = Ntt::new(n);
    let mut acc = Acc::new(4 * n);
    let bound = V::BOUND;
    // the signature vectors in thread and operation order, for the dependence statistics
    let mut history: Vec<Vec<Option<Vec<i32>>>> = res.iter().map(|_| Vec::new()).collect();
    for (t, tr) in res.iter().enumerate() {
        let ops = match tr {
            Ok(o) => o,
            Err(_) => continue,
        };
        for (i, r) in ops.iter().enumerate() {
            if let (Op::Sign { msg, .. }, OpResult::Sig { bytes, trace, .. }) = (&plan.threads[t][i], r) {
                st.evaluations += 1;
                st.add("probe.natural_norm_reject", *trace.probes.get("sign.norm_reject").unwrap_or(&0));
                match recover(n, &ntt, &basis.h, msg, bytes) {
                    None => {
                        st.inc("skipped.undecodable_signature");
                        history[t].push(None);
                    }
                    Some((s1, s2)) => {
                        history[t].push(Some(s1.iter().chain(s2.iter()).map(|&x| x as i32).collect()));
                        let norm: i64 = s1.iter().chain(s2.iter()).map(|x| x * x).sum();
                        acc.m += 1;
                        acc.norm_sum += norm as f64;
                        acc.max_norm = acc.max_norm.max(norm);
                        if norm > bound {
                            acc.over_bound += 1;
                            if out.violations.is_empty() {
                                out.violations.push(Violation {
                                    property: PROP,
                                    class: format!("emitted signature{} exceeds the verification bound", n),
                                    detail: format!("||s||^2 = {} > {} (key {} chunk {} thread {} op {})", norm, bound, key_index, chunk, t, i),
                                    replay: json!({"kind": "rerun"}),
                                    run,
                                });
                            }
                        }
                        let p = basis.project(&s1, &s2);
                        for (d, v) in p.iter().enumerate() {
                            acc.sum[d] += v;
                            acc.sq[d] += v * v;
                        }
                        // the reference signer on the same tape (the op's stream: SimStream draws every
                        // byte it hands out from one generator, in the order in which it is asked)
                        if let Op::Sign { stream, .. } = &plan.threads[t][i] {
                            let mut tp = Prng::new(*stream);
                            let _junk = tp.fork(0x6a756e6b);
                            let mut tape = || tp.byte();
                            let r = basis.ref_sign(msg, V::SIGMA, V::SIGMIN, bound, V::SIG_LEN, &mut tape);
                            let rn: i64 = r.s1.iter().chain(r.s2.iter()).map(|x| x * x).sum();
                            acc.rm += 1;
                            if r.s2 == s2 && r.salt[..] == bytes[1..41] {
                                acc.identical += 1;
                                acc.sib[0] += 1.0;
                            } else {
                                let rp = basis.project(&r.s1, &r.s2);
                                // sibling leaves of the bottom nodes (leaf order: left, right, left, right, ...)
                                let sg2 = V::SIGMA * V::SIGMA;
                                let mut sdiff = 0.0;
                                // In leaf order, coordinates 4k, 4k+1 share one width (the first leaf of the k-th
                                // bottom node of the specification's tree: d00 of a 2x2 block, used for both halves)
                                // and 4k+2, 4k+3 the other (d11).
                                for k in 0..n / 2 {
                                    let (dl, dr) = (basis.gs_norms[4 * k] * basis.gs_norms[4 * k], basis.gs_norms[4 * k + 2] * basis.gs_norms[4 * k + 2]);
                                    let w = dl / dr - dr / dl;
                                    let i = 2 * n + 4 * k;
                                    let sq = |v: &Vec<f64>, j: usize| v[j] * v[j];
                                    let real = sq(&p, i) + sq(&p, i + 1) - sq(&p, i + 2) - sq(&p, i + 3);
                                    let refr = sq(&rp, i) + sq(&rp, i + 1) - sq(&rp, i + 2) - sq(&rp, i + 3);
                                    sdiff += w * (real - refr) / sg2;
                                }
                                acc.sib[0] += 1.0;
                                acc.sib[1] += sdiff;
                                acc.sib[2] += sdiff * sdiff;
                                for d in 0..p.len() {
                                    let dd = p[d] * p[d] - rp[d] * rp[d];
                                    acc.dsq_sum[d] += dd;
                                    acc.dsq_sq[d] += dd * dd;
                                }
                            }
                            acc.ref_norm_sum += rn as f64;
                            let dn = (norm - rn) as f64;
                            acc.dn_sum += dn;
                            acc.dn_sq += dn * dn;
                        }
                        let gs = &p[2 * n..];
                        {
                            // every lag: randomness used twice inside one signature shows as a dependence between
                            // coordinates a fixed distance apart in sampling (= reversed leaf) order
                            let zs: Vec<f64> = gs.iter().map(|v| v / V::SIGMA).collect();
                            let m2 = zs.len();
                            for l in 1..m2 {
                                let mut t = 0.0;
                                for i in 0..m2 - l {
                                    t += zs[i] * zs[i + l];
                                }
                                acc.lag[l] += t;
                            }
                        }
                        for lag in 1..=3usize {
                            for i in 0..2 * n - lag {
                                acc.cross[(lag - 1) * 2 * n + i] += gs[i] * gs[i + lag];
                            }
                        }
                        st.distinct.insert(hash_bytes(key_index as u64, bytes));
                    }
                }
            } else if let OpResult::Unwound(_) = r {
                st.inc("skipped.sign_unwound");
                history[t].push(None);
            }
        }
    }
    {
        let scale = 2.0 * n as f64 * V::SIGMA * V::SIGMA;
        let ip = |a: &Vec<i32>, b: &Vec<i32>| a.iter().zip(b.iter()).map(|(x, y)| (*x as i64 * *y as i64) as f64).sum::<f64>() / scale;
        for t in 0..history.len() {
            for k in 0..history[t].len() {
                if let Some(a) = &history[t][k] {
                    if k + 1 < history[t].len() {
                        if let Some(b) = &history[t][k + 1] {
                            let v = ip(a, b);
                            acc.l1[0] += 1.0;
                            acc.l1[1] += v;
                            acc.l1[2] += v * v;
                        }
                    }
                    if t + 1 < history.len() {
                        if let Some(Some(b)) = history[t + 1].get(k) {
                            let v = ip(a, b);
                            acc.cx[0] += 1.0;
                            acc.cx[1] += v;
                            acc.cx[2] += v * v;
                        }
                    }
                }
            }
        }
    }
    if chunk == 0 {
        let gmin = basis.gs_norms.iter().cloned().fold(f64::INFINITY, f64::min);
        let gmax = basis.gs_norms.iter().cloned().fold(0.0, f64::max);
        st.sample(json!({"variant": n, "key_seed_hex": hex(&k.seed), "row_norms": [basis.row_norm_fg, basis.row_norm_cfg], "gs_norm_min": gmin, "gs_norm_max": gmax, "gs_limit_1.17sqrt(q)": 1.17 * (12289f64).sqrt(), "signatures_in_this_chunk": acc.m}));
    }
    st.blobs.push((((n as u64) << 32) | key_index as u64, acc.to_blob()));
    // GS norms are needed for binning in the parent: ship them once per key
    if chunk == 0 {
        let mut b = Vec::new();
        for g in &basis.gs_norms {
            b.extend_from_slice(&g.to_le_bytes());
        }
        b.extend_from_slice(&basis.row_pool_var[0].to_le_bytes());
        b.extend_from_slice(&basis.row_pool_var[1].to_le_bytes());
        st.blobs.push(((1 << 48) | ((n as u64) << 32) | key_index as u64, b));
    }
    out.stats = st;
    out
}

/// Key volume: the law is promised for every key that key generation can return. Many fresh keys, one
/// signature each: the key's Gram-Schmidt norm (from the key bytes, harness arithmetic) must respect the
/// bound of key generation, 1.17 sqrt(q) - otherwise its narrowest leaves are narrower than sigma_min, which
/// the sampler is not specified for - and the sampler must never be entered with a width outside
/// [sigma_min, sigma_max].
fn key_volume_run<V: Variant>(seed: u64, run: u64, count: usize) -> RunOutcome {
    let mut rng = Prng::new(report::run_seed(seed, "C10keys", run));
    let mut out = RunOutcome::default();
    out.stats.inc("runs");
    out.stats.inc("runs.key_volume");
    let n = V::N;
    let limit = 1.17 * (12289f64).sqrt();
    for _ in 0..count {
        let ks = rng.seed32();
        let (sk, pk) = match crate::world::keygen_sim::<V>(ks, None, None).0 {
            Ok(k) => k,
            Err(_) => continue, // liveness of key generation is C15's / C05's subject
        };
        out.stats.evaluations += 1;
        out.stats.inc(&format!("key_volume.keys.{}", n));
        let basis = match Basis::from_bytes(n, &V::sk_to_bytes(&sk), &V::pk_to_bytes(&pk)) {
            Ok(b) => b,
            Err(_) => continue,
        };
        let gmax = basis.gs_norms.iter().cloned().fold(0.0, f64::max);
        let doc = json!({"kind": "key_volume", "n": n, "key_seed_hex": hex(&ks)});
        if gmax > limit * (1.0 + 1e-9) {
            out.violations.push(Violation {
                property: PROP,
                class: format!("a generated key{} has Gram-Schmidt norm above 1.17 sqrt(q): its narrowest leaves are narrower than sigma_min", n),
                detail: format!("key seed {}: max Gram-Schmidt norm {:.4} > {:.4}", hex(&ks), gmax, limit),
                replay: doc,
                run,
            });
            break;
        }
        let (r, trace) = crate::world::sign_sim::<V>(&sk, b"one signature per key", &crate::world::SignPlan::uniform(rng.next_u64()), None);
        if r.is_ok() && trace.sigma_out_of_range > 0 {
            out.violations.push(Violation {
                property: PROP,
                class: format!("sign{} enters the sampler with a width outside [sigma_min, sigma_max]", n),
                detail: format!("key seed {}: {} sampler calls out of range (max Gram-Schmidt norm of the key {:.4})", hex(&ks), trace.sigma_out_of_range, gmax),
                replay: doc,
                run,
            });
            break;
        }
        out.stats.distinct.insert(hash_bytes(0x6b, &ks));
    }
    out
}

fn replay_key_volume(doc: &Value) -> Option<String> {
    let n = doc.get("n")?.as_u64()? as usize;
    let ks: [u8; 32] = crate::rng::unhex(doc.get("key_seed_hex")?.as_str()?)?.try_into().ok()?;
    fn go<V: Variant>(ks: [u8; 32]) -> Option<String> {
        let n = V::N;
        let (sk, pk) = crate::world::keygen_sim::<V>(ks, None, None).0.ok()?;
        let basis = Basis::from_bytes(n, &V::sk_to_bytes(&sk), &V::pk_to_bytes(&pk)).ok()?;
        let gmax = basis.gs_norms.iter().cloned().fold(0.0, f64::max);
        if gmax > 1.17 * (12289f64).sqrt() * (1.0 + 1e-9) {
            return Some(format!("a generated key{} has Gram-Schmidt norm above 1.17 sqrt(q): its narrowest leaves are narrower than sigma_min", n));
        }
        let (r, trace) = crate::world::sign_sim::<V>(&sk, b"one signature per key", &crate::world::SignPlan::uniform(1), None);
        if r.is_ok() && trace.sigma_out_of_range > 0 {
            return Some(format!("sign{} enters the sampler with a width outside [sigma_min, sigma_max]", n));
        }
        None
    }
    if n == 512 {
        go::<V512>(ks)
    } else {
        go::<V1024>(ks)
    }
}

pub struct Ctx {
    pub p512: KeyPool<V512>,
    pub p1024: KeyPool<V1024>,
    pub chunks: u64,
    pub per_chunk: usize,
    /// number of Falcon-1024 keys whose history is taken (the pool always holds one for warm-ups)
    pub k1024: usize,
}

fn sizes(tier: Tier) -> (usize, usize, u64, usize) {
    // (keys 512, keys 1024, chunks per key, signatures per chunk)
    match tier {
        Tier::Quick => (3, 1, 32, 250),
        Tier::Thorough => (6, 2, 80, 250),
    }
}

pub fn context(tier: Tier, seed: u64) -> Result<Ctx, String> {
    let w = report::workers();
    let (k512, k1024, chunks, per_chunk) = sizes(tier);
    let pseed = report::run_seed(seed, "pool", 0);
    // candidates; the keys whose histories are taken are SELECTED from them: the one with the longest
    // (g,-f), the one with the largest Gram-Schmidt norm (its smallest leaf width is closest to
    // sigma_min), then the remaining ones in order. The selection uses the harness's own arithmetic
    // on the key bytes only.
    let mut p512: KeyPool<V512> = KeyPool::build(pseed, k512 * 5 + 1, 0, w);
    let mut p1024: KeyPool<V1024> = KeyPool::build(pseed ^ 0x1024, (k1024 * 4).max(1), 0, w);
    if p512.keys.len() < k512 || p1024.keys.len() < k1024.max(1) {
        return Err("key pool could not be built on the current tree".into());
    }
    fn select<V: Variant>(pool: &mut KeyPool<V>, want: usize) {
        let mut scored: Vec<(f64, f64, usize)> = Vec::new();
        for (i, k) in pool.keys.iter().enumerate() {
            if let Ok(b) = Basis::from_bytes(V::N, &k.sk_bytes, &k.pk_bytes) {
                let gmax = b.gs_norms.iter().cloned().fold(0.0, f64::max);
                scored.push((b.row_norm_fg, gmax, i));
            }
        }
        let mut order: Vec<usize> = Vec::new();
        if let Some(a) = scored.iter().max_by(|x, y| x.0.partial_cmp(&y.0).unwrap()) {
            order.push(a.2);
        }
        if let Some(a) = scored.iter().filter(|x| !order.contains(&x.2)).max_by(|x, y| x.1.partial_cmp(&y.1).unwrap()) {
            order.push(a.2);
        }
        for sc in &scored {
            if !order.contains(&sc.2) {
                order.push(sc.2);
            }
        }
        order.truncate(want);
        // keep the selection order: longest (g,-f) first
        let mut slots: Vec<Option<crate::world::KeyEntry<V>>> = std::mem::take(&mut pool.keys).into_iter().map(Some).collect();
        pool.keys = order.iter().filter_map(|&i| slots[i].take()).collect();
    }
    select(&mut p512, k512);
    select(&mut p1024, k1024.max(1));
    Ok(Ctx { p512, p1024, chunks, per_chunk, k1024 })
}

fn dispatch(ctx: &Ctx, seed: u64, run: u64) -> RunOutcome {
    let n1024 = ctx.k1024 as u64 * ctx.chunks;
    // every other key has all its chunks warmed up with a key of the other variant
    if run < n1024 {
        let ki = (run / ctx.chunks) as usize;
        let warm = if ki % 2 == 0 { ctx.p512.keys.first() } else { None };
        run_chunk::<V1024, V512>(seed, run, ki, run % ctx.chunks, &ctx.p1024, ctx.per_chunk, warm)
    } else {
        let r = run - n1024;
        let ki = (r / ctx.chunks) as usize;
        let warm = if ki % 2 == 0 { ctx.p1024.keys.first() } else { None };
        run_chunk::<V512, V1024>(seed, run, ki, r % ctx.chunks, &ctx.p512, ctx.per_chunk, warm)
    }
}

pub fn runner(tier: Tier, seed: u64) -> Option<(u64, Box<dyn Fn(u64) -> RunOutcome + Sync>)> {
    let ctx = context(tier, seed).ok()?;
    let n = (ctx.p512.keys.len() + ctx.k1024) as u64 * ctx.chunks;
    Some((n, Box::new(move |run| dispatch(&ctx, seed, run))))
}

pub fn rerun(tier: Tier, seed: u64, run: u64) -> Option<RunOutcome> {
    let ctx = context(tier, seed).ok()?;
    Some(dispatch(&ctx, seed, run))
}

fn batch(rep: &mut Report, tier: Tier, seed: u64) -> Result<(), String> {
    let ctx = context(tier, seed)?;
    let total = (ctx.p512.keys.len() + ctx.k1024) as u64 * ctx.chunks;
    let out = report::parallel_runs(total, report::workers(), |run| dispatch(&ctx, seed, run));
    rep.absorb(out);
    // key volume: 16 x 12 Falcon-512 keys and 6 x 4 Falcon-1024 keys in quick (thorough x 8)
    let (r512, r1024) = if tier == Tier::Quick { (16u64, 6u64) } else { (128, 48) };
    let out = report::parallel_runs(r512 + r1024, report::workers(), |run| if run < r1024 { key_volume_run::<V1024>(seed, run, 4) } else { key_volume_run::<V512>(seed, run, 12) });
    rep.absorb(out);
    Ok(())
}

/// statistics over the histories, per key
fn evaluate(rep: &mut Report) {
    use std::collections::BTreeMap;
    let (blobs, rest): (Vec<_>, Vec<_>) = std::mem::take(&mut rep.stats.blobs).into_iter().partition(|(t, _)| *t < (1 << 62));
    rep.stats.blobs = rest;
    let mut accs: BTreeMap<u64, Acc> = BTreeMap::new();
    let mut gsn: BTreeMap<u64, Vec<f64>> = BTreeMap::new();
    for (tag, b) in &blobs {
        if tag >> 48 == 1 {
            gsn.insert(tag & ((1 << 48) - 1), b.chunks_exact(8).map(|c| f64::from_le_bytes(c.try_into().unwrap())).collect());
        }
    }
    for (tag, b) in &blobs {
        if tag >> 48 == 0 {
            let n = (tag >> 32) as usize;
            accs.entry(*tag).or_insert_with(|| Acc::new(4 * n)).add_blob(b);
        }
    }
    let seed = rep.seed;
    let tier = rep.tier.name();
    let mut table = Vec::new();
    // per key: (variant, paired norm z, paired z of the four Gram-Schmidt norm quartiles), pooled over keys afterwards
    let mut paired: Vec<(usize, f64, [f64; 4])> = Vec::new();
    let mut sib_z: Vec<(usize, f64)> = Vec::new();
    for (tag, a) in accs.iter() {
        let n = (tag >> 32) as usize;
        let key = tag & 0xffff_ffff;
        let sigma = if n == 512 { V512::SIGMA } else { V1024::SIGMA };
        let m = a.m as f64;
        if a.m < 500 {
            rep.stats.notes.insert(format!("NOTE: only {} signatures for key {} of variant {}; statistics skipped", a.m, key, n));
            continue;
        }
        let mut alarm = |what: &str, detail: String, rep: &mut Report| {
            rep.violations.push(Violation {
                property: PROP,
                class: format!("signature law of variant {} deviates from the spherical Gaussian ({})", n, what),
                detail: format!("key {}: {}", key, detail),
                replay: json!({"kind": "law_eval", "seed": seed, "tier": tier, "n": n, "key": key}),
                run: (1 << 42) + tag,
            });
        };
        // norm
        let norm_ratio = a.norm_sum / m / (2.0 * n as f64 * sigma * sigma);
        // per direction
        let dirs = 4 * n;
        let a_sum = |d: usize| a.sum[d];
        let a_sq = |d: usize| a.sq[d];
        let a_cross = |_d: usize, lag: usize, i: usize| a.cross[(lag - 1) * 2 * n + i];
        let z_mean: Vec<f64> = (0..dirs).map(|d| (a.sum[d] / m) / (sigma / m.sqrt())).collect();
        let ratio: Vec<f64> = (0..dirs).map(|d| a.sq[d] / m / (sigma * sigma)).collect();
        let worst_mean = z_mean.iter().cloned().fold(0.0f64, |x, y| x.max(y.abs()));
        let tol = 7.0 * (2.0 / m).sqrt();
        let worst_ratio = ratio.iter().cloned().fold(0.0f64, |x, y| x.max((y - 1.0).abs()));
        // pooled ratios: rows of (g,-f), rows of (G,-F), GS directions in 4 bins by GS norm
        let pool = |idx: &[usize]| idx.iter().map(|&d| ratio[d]).sum::<f64>() / idx.len() as f64;
        // (label, pooled ratio, tolerance): 0.02, widened to 7 standard deviations where the
        // directions of a class are so correlated that the pooled statistic is noisier than that
        let row_sd = |k: usize| gsn.get(tag).filter(|g| g.len() == 2 * n + 2).map(|g| (g[2 * n + k] / m).sqrt()).unwrap_or(0.0);
        let mut pooled: Vec<(String, f64, f64)> = vec![
            ("rows (g,-f)".into(), pool(&(0..n).collect::<Vec<_>>()), (7.0 * row_sd(0)).max(0.02)),
            ("rows (G,-F)".into(), pool(&(n..2 * n).collect::<Vec<_>>()), (7.0 * row_sd(1)).max(0.02)),
        ];
        if let Some(g) = gsn.get(tag) {
            let g = &g[..2 * n];
            let mut order: Vec<usize> = (0..2 * n).collect();
            order.sort_by(|&x, &y| g[x].partial_cmp(&g[y]).unwrap());
            for b in 0..4 {
                let idx: Vec<usize> = order[b * n / 2..(b + 1) * n / 2].iter().map(|&i| 2 * n + i).collect();
                pooled.push((format!("GS directions, norm quartile {}", b + 1), pool(&idx), 0.02));
            }
        }
        // correlations between neighbouring Gram-Schmidt coordinates (leaf order): under the
        // specification they are independent, so M * r^2 is chi-square(1) per pair
        let mut corr_z = [0.0f64; 3];
        for lag in 1..=3usize {
            let mut t = 0.0;
            let np = 2 * n - lag;
            for i in 0..np {
                let (a, b) = (2 * n + i, 2 * n + i + lag);
                let cov = a_cross(a, lag, i) / m - (a_sum(a) / m) * (a_sum(b) / m);
                let va = a_sq(a) / m - (a_sum(a) / m).powi(2);
                let vb = a_sq(b) / m - (a_sum(b) / m).powi(2);
                let r = cov / (va * vb).sqrt();
                t += m * r * r;
            }
            corr_z[lag - 1] = (t - np as f64) / (2.0 * np as f64).sqrt();
        }
        // chi-square-like dispersion of the direction means (detects a systematic mean shift)
        let mean_disp = z_mean[2 * n..].iter().map(|z| z * z).sum::<f64>() / (2 * n) as f64;
        table.push(json!({"variant": n, "key": key, "signatures": a.m, "mean_norm_ratio": (norm_ratio * 1e5).round() / 1e5,
            "pooled": pooled.iter().map(|(l, v, t)| json!([l, (v * 1e4).round() / 1e4, (t * 1e4).round() / 1e4])).collect::<Vec<_>>(),
            "worst_direction_mean_sigmas": (worst_mean * 100.0).round() / 100.0,
            "worst_direction_second_moment_dev": (worst_ratio * 1e4).round() / 1e4, "per_direction_tolerance": (tol * 1e4).round() / 1e4,
            "gs_mean_dispersion": (mean_disp * 1e3).round() / 1e3, "max_norm": a.max_norm,
            "neighbour_correlation_z_lag1_2_3": corr_z.iter().map(|z| (z * 100.0).round() / 100.0).collect::<Vec<_>>()}));
        // comparison with the reference signer on the same tapes (paired; exact zeros if the
        // implementation is in lock-step with the specification's Sign on that tape layout)
        let rm = a.rm as f64;
        let mut ref_norm_z = 0.0;
        let mut ref_dir_worst = 0.0f64;
        let mut ref_dir_disp = 0.0;
        let mut ref_dirs = 0usize;
        if a.rm >= 500 {
            let md = a.dn_sum / rm;
            let vd = a.dn_sq / rm - md * md;
            if vd > 0.0 {
                ref_norm_z = md / (vd / rm).sqrt();
            }
            let mut t = 0.0;
            for d in 0..dirs {
                let md = a.dsq_sum[d] / rm;
                let vd = a.dsq_sq[d] / rm - md * md;
                if vd > 0.0 {
                    let z = md / (vd / rm).sqrt();
                    ref_dir_worst = ref_dir_worst.max(z.abs());
                    t += z * z;
                    ref_dirs += 1;
                }
            }
            if ref_dirs > 0 {
                ref_dir_disp = t / ref_dirs as f64;
            }
        }
        // paired second moment per quartile of Gram-Schmidt norm (the coordinates of one signature are
        // independent under the specification, so the variance of a class sum is the sum of variances)
        let mut ref_quart_z = [0.0f64; 4];
        if a.rm >= 500 {
            if let Some(g) = gsn.get(tag) {
                let g = &g[..2 * n];
                let mut order: Vec<usize> = (0..2 * n).collect();
                order.sort_by(|&x, &y| g[x].partial_cmp(&g[y]).unwrap());
                for b in 0..4 {
                    let (mut md, mut vd) = (0.0, 0.0);
                    for &i in &order[b * n / 2..(b + 1) * n / 2] {
                        let d = 2 * n + i;
                        let m1 = a.dsq_sum[d] / rm;
                        md += m1;
                        vd += (a.dsq_sq[d] / rm - m1 * m1) / rm;
                    }
                    if vd > 0.0 {
                        ref_quart_z[b] = md / vd.sqrt();
                    }
                }
            }
            paired.push((n, ref_norm_z, ref_quart_z));
        }
        if let Some(Value::Object(o)) = table.last_mut() {
            o.insert("reference_signer".into(), json!({"signatures": a.rm, "identical": a.identical,
                "mean_norm_ratio_reference": (a.ref_norm_sum / rm.max(1.0) / (2.0 * n as f64 * sigma * sigma) * 1e5).round() / 1e5,
                "paired_norm_z": (ref_norm_z * 100.0).round() / 100.0,
                "paired_direction_worst_z": (ref_dir_worst * 100.0).round() / 100.0,
                "paired_direction_dispersion": (ref_dir_disp * 1e3).round() / 1e3,
                "paired_gs_quartile_z": ref_quart_z.iter().map(|z| (z * 100.0).round() / 100.0).collect::<Vec<_>>()}));
        }
        if a.over_bound > 0 {
            // already reported by the run itself
        }
        // lag spectrum inside a signature: every lag, and sliding windows of 32 lags
        let (mut lag_worst, mut lag_at, mut win_worst, mut win_at) = (0.0f64, 0usize, 0.0f64, 0usize);
        {
            let m2 = 2 * n;
            let zl: Vec<f64> = (0..m2).map(|l| if l == 0 { 0.0 } else { a.lag[l] / (m * (m2 - l) as f64).sqrt() }).collect();
            for l in 1..m2 {
                if zl[l].abs() > lag_worst {
                    lag_worst = zl[l].abs();
                    lag_at = l;
                }
            }
            let w = 32usize;
            let mut run: f64 = zl[1..=w.min(m2 - 1)].iter().sum();
            for l in 1..m2.saturating_sub(w) {
                let z = run.abs() / (w as f64).sqrt();
                if z > win_worst {
                    win_worst = z;
                    win_at = l;
                }
                run += zl[l + w] - zl[l];
            }
        }
        if let Some(Value::Object(o)) = table.last_mut() {
            o.insert("lag_spectrum".into(), json!({"worst_single_lag_z": (lag_worst * 100.0).round() / 100.0, "at_lag": lag_at, "worst_window32_z": (win_worst * 100.0).round() / 100.0, "window_from_lag": win_at}));
        }
        if lag_worst > 7.5 || win_worst > 7.5 {
            alarm(
                "coordinates of one signature depend on each other",
                format!("standardised Gram-Schmidt coordinates a fixed distance apart (leaf order): lag {} at {:.1} standard errors; lags {}..{} together at {:.1}", lag_at, lag_worst, win_at, win_at + 31, win_worst),
                rep,
            );
            continue;
        }
        // dependence between signatures (independent spherical Gaussians: mean 0, variance 1/2n)
        let dep_z = |c: &[f64; 3]| -> f64 {
            if c[0] < 200.0 {
                return 0.0;
            }
            let mean = c[1] / c[0];
            let var = (c[2] / c[0] - mean * mean).max(0.25 / (2.0 * n as f64));
            mean / (var / c[0]).sqrt()
        };
        let (z_cross, z_lag1) = (dep_z(&a.cx), dep_z(&a.l1));
        if let Some(Value::Object(o)) = table.last_mut() {
            o.insert("dependence".into(), json!({"cross_thread_pairs": a.cx[0], "cross_thread_z": (z_cross * 100.0).round() / 100.0, "consecutive_pairs": a.l1[0], "consecutive_z": (z_lag1 * 100.0).round() / 100.0}));
        }
        if z_cross.abs() > 6.5 || z_lag1.abs() > 6.5 {
            alarm(
                "signatures are not independent of each other",
                format!("normalised inner product <s,s'>/(2n sigma^2): k-th signatures of two threads of one process {:.1} standard errors over {} pairs; consecutive signatures of one thread {:.1} over {} pairs", z_cross, a.cx[0], z_lag1, a.l1[0]),
                rep,
            );
            continue;
        }
        let z_sib = if a.sib[0] >= 500.0 {
            let mean = a.sib[1] / a.sib[0];
            let var = a.sib[2] / a.sib[0] - mean * mean;
            if var > 0.0 {
                mean / (var / a.sib[0]).sqrt()
            } else {
                0.0
            }
        } else {
            0.0
        };
        if let Some(Value::Object(o)) = table.last_mut() {
            o.insert("sibling_leaves_z".into(), json!((z_sib * 100.0).round() / 100.0));
        }
        sib_z.push((n, z_sib));
        if z_sib.abs() > 6.5 {
            alarm(
                "the two leaves of the bottom nodes against the reference signer",
                format!("sum over bottom nodes of (d_left/d_right - d_right/d_left) * (<s,u_left>^2 - <s,u_right>^2), real minus reference: {:.1} standard errors over {} tapes", z_sib, a.sib[0]),
                rep,
            );
            continue;
        }
        if let Some(b) = (0..4).find(|&b| ref_quart_z[b].abs() > 6.5) {
            alarm(
                "second moment of a Gram-Schmidt norm quartile against the reference signer",
                format!("quartile {} (1 = smallest Gram-Schmidt norms, i.e. widest leaves): {:.1} standard errors over {} tapes ({} signatures identical to the reference's)", b + 1, ref_quart_z[b], a.rm, a.identical),
                rep,
            );
            continue;
        }
        if ref_norm_z.abs() > 6.5 {
            alarm(
                "mean squared norm against the reference signer",
                format!("||s||^2 - ||s_ref||^2 over {} tapes: mean {:.1}, {:.1} standard errors ({} signatures identical to the reference's)", a.rm, a.dn_sum / rm, ref_norm_z, a.identical),
                rep,
            );
            continue;
        }
        if ref_dirs >= 64 && (ref_dir_worst > 7.5 || ref_dir_disp > 1.0 + 8.0 * (2.0 / ref_dirs as f64).sqrt()) {
            alarm(
                "second moments along secret directions against the reference signer",
                format!("<s,u>^2 - <s_ref,u>^2 over {} tapes and {} directions: worst direction {:.1} standard errors, mean squared z {:.3} ({} signatures identical to the reference's)", a.rm, ref_dirs, ref_dir_worst, ref_dir_disp, a.identical),
                rep,
            );
            continue;
        }
        if (norm_ratio - 1.0).abs() > 0.006 {
            alarm("mean squared norm", format!("mean ||s||^2/(2n sigma^2) = {:.5} over {} signatures", norm_ratio, a.m), rep);
            continue;
        }
        if let Some((l, v, t)) = pooled.iter().find(|(_, v, t)| (v - 1.0).abs() > *t) {
            alarm("pooled second moment", format!("{}: E<s,u>^2/sigma^2 = {:.4} (tolerance +-{:.4}) over {} signatures", l, v, t, a.m), rep);
            continue;
        }
        if worst_ratio > tol {
            let d = (0..dirs).max_by(|&x, &y| (ratio[x] - 1.0).abs().partial_cmp(&(ratio[y] - 1.0).abs()).unwrap()).unwrap();
            alarm("second moment along one direction", format!("direction {}: E<s,u>^2/sigma^2 = {:.4}, tolerance +-{:.4}, {} signatures", d, ratio[d], tol, a.m), rep);
            continue;
        }
        if let Some(l) = (0..3).find(|&l| corr_z[l] > 8.0) {
            alarm("correlated Gram-Schmidt coordinates", format!("lag {}: sum of M*r^2 over neighbouring leaf coordinates is {:.1} standard deviations above its expectation", l + 1, corr_z[l]), rep);
            continue;
        }
        if worst_mean > 6.0 || mean_disp > 1.0 + 8.0 * (2.0 / (2 * n) as f64).sqrt() {
            alarm("mean", format!("worst direction mean {:.2} standard errors; dispersion of GS-direction means {:.3}", worst_mean, mean_disp), rep);
            continue;
        }
        rep.stats.distinct.insert(*tag);
    }
    // the same paired statistics pooled over the keys of a variant, and over all keys
    let mut pooled_rows = Vec::new();
    for which in [512usize, 1024, 0] {
        let sel: Vec<&(usize, f64, [f64; 4])> = paired.iter().filter(|p| which == 0 || p.0 == which).collect();
        if sel.len() < 2 {
            continue;
        }
        let k = (sel.len() as f64).sqrt();
        let zn = sel.iter().map(|p| p.1).sum::<f64>() / k;
        let zq: Vec<f64> = (0..4).map(|b| sel.iter().map(|p| p.2[b]).sum::<f64>() / k).collect();
        let label = if which == 0 { "all keys".to_string() } else { format!("keys of variant {}", which) };
        pooled_rows.push(json!({"over": label, "keys": sel.len(), "paired_norm_z": (zn * 100.0).round() / 100.0, "paired_gs_quartile_z": zq.iter().map(|z| (z * 100.0).round() / 100.0).collect::<Vec<_>>()}));
        let worst = zq.iter().cloned().fold(zn.abs(), |x, y| x.max(y.abs()));
        if worst > 5.5 && !rep.violations.iter().any(|v| v.class.contains("pooled over keys")) {
            rep.violations.push(Violation {
                property: PROP,
                class: "signature law deviates from the reference signer's (paired statistics pooled over keys)".into(),
                detail: format!("{}: norm z {:.1}, Gram-Schmidt norm quartile z {:?} (alarm at 5.5)", label, zn, zq.iter().map(|z| (z * 10.0).round() / 10.0).collect::<Vec<_>>()),
                replay: json!({"kind": "law_eval", "seed": seed, "tier": tier, "n": which, "key": 0}),
                run: (1 << 42) + 999,
            });
        }
    }
    if sib_z.len() >= 2 {
        let z = sib_z.iter().map(|p| p.1).sum::<f64>() / (sib_z.len() as f64).sqrt();
        pooled_rows.push(json!({"over": "all keys", "keys": sib_z.len(), "sibling_leaves_z": (z * 100.0).round() / 100.0}));
        if z.abs() > 5.5 && !rep.violations.iter().any(|v| v.class.contains("pooled over keys")) {
            rep.violations.push(Violation {
                property: PROP,
                class: "signature law deviates from the reference signer's (paired statistics pooled over keys)".into(),
                detail: format!("sibling leaves of the bottom nodes: {:.1} standard errors over {} keys (alarm at 5.5)", z, sib_z.len()),
                replay: json!({"kind": "law_eval", "seed": seed, "tier": tier, "n": 0, "key": 0}),
                run: (1 << 42) + 998,
            });
        }
    }
    rep.extra.insert("law_table_pooled_over_keys".into(), Value::Array(pooled_rows));
    rep.extra.insert("law_table".into(), Value::Array(table));
}

pub fn replay(doc: &Value) -> Option<String> {
    match doc.get("kind")?.as_str()? {
        "key_volume" => replay_key_volume(doc),
        "law_eval" => {
            let seed = doc.get("seed")?.as_u64()?;
            let tier = if doc.get("tier")?.as_str()? == "thorough" { Tier::Thorough } else { Tier::Quick };
            let want = doc.get("violation")?.as_str()?;
            let mut rep = Report::new(PROP, tier, seed);
            batch(&mut rep, tier, seed).ok()?;
            evaluate(&mut rep);
            rep.violations.iter().find(|v| v.class == want).map(|v| v.class.clone())
        }
        _ => None,
    }
}

pub fn check(tier: Tier, seed: u64) -> i32 {
    let mut rep = Report::new(PROP, tier, seed);
    if let Err(e) = batch(&mut rep, tier, seed) {
        eprintln!("HARNESS-ERROR: {}", e);
        return 2;
    }
    for k in ["harness.pool_key_not_loadable", "harness.basis_not_recoverable"] {
        if rep.stats.counters.get(k).copied().unwrap_or(0) > 0 {
            eprintln!("HARNESS-ERROR: {} {:?}", k, rep.stats.notes);
            return 2;
        }
    }
    evaluate(&mut rep);
    rep.rule = "a case is one signature in the history of one key: K keys (selected from 5K candidates: the one with the longest (g,-f), the one with the largest Gram-Schmidt norm, then in order; every other key has each of its runs warmed up by one signature with a key of the other variant) x M signatures over distinct messages under healthy simulated entropy (E1), signed by 1-4 baton-scheduled threads sharing the key; for each signature (s1, s2) is recovered with the harness's own arithmetic and projected on the 2n normalised secret-basis rows and the 2n Gram-Schmidt (ffLDL leaf) directions; in addition 192 + 24 fresh keys (thorough x 8) sign once each: the key's Gram-Schmidt norm must respect 1.17 sqrt(q) and the sampler must never be entered with a width outside [sigma_min, sigma_max]; every signature is non-trivial; distinct = distinct signature bytes (plus one per key whose statistics were evaluated)".into();
    rep.assumptions = vec![
        "sigma from the specification (165.7366171829776 / 168.38857144654395)".into(),
        "alarms: mean ||s||^2/(2n sigma^2) outside 1 +- 0.006; pooled second moment of a direction class outside 1 +- 0.02 (widened to 7 standard deviations of that statistic, computed from the spectrum of the class's Gram operator, where that is larger); a single direction outside 1 +- 7*sqrt(2/M); a direction mean beyond 6 standard errors or over-dispersed direction means; the sum of M*r^2 over neighbouring Gram-Schmidt coordinates (lags 1-3, leaf order) more than 8 standard deviations above its expectation; any ||s||^2 above floor(beta^2); fixed default seed".into(),
        "detects distributional damage above these effect sizes only".into(),
        "no buggify and no entropy faults here: they would legitimately change the law".into(),
    ];
    rep.components = json!({
        "real": ["sign (ffsampling, sampler_z)", "SecretKey/PublicKey/Signature to_bytes", "std threads"],
        "stub": ["thread scheduler (baton)", "ambient entropy (simulator stream E1, hook H1)"],
        "model": ["reference Decompress, HashToPoint, NTT (recovering s1)", "reference FFT / ffLDL tree / noise decomposition (Gram-Schmidt coordinates)", "moments of the spherical Gaussian"],
    });
    rep.finish(report::confirm_in_fresh_process)
}
