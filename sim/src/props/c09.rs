//! C09 — the integer Gaussian sampler is total and follows D_{Z,mu,sigma'}.
//! The sampler is a retrying consumer of an `RngCore` stream; the simulator owns
//! the stream, injects tie-forcing / table-boundary entropy (E2/E3), checks every
//! call against the reference sampler in lock-step over the bytes actually
//! consumed, compares the integer building blocks through the H4 wrappers, and
//! tests the output law over uniform streams (chi-square, mean, variance).

use crate::entropy::{Installed, Mode, Shared, SimStream};
use crate::guard::{guarded, Unwind};
use crate::reference::sampler as rs;
use crate::report::{self, Report, RunOutcome, Stats, Tier, Violation};
use crate::rng::{hash_bytes, hash_u64, hex, unhex, Prng};
use falcon_rust::verif_hooks as hooks;
use rand::RngCore;
use serde_json::{json, Value};

pub const PROP: &str = "C09";

pub const SIGMIN_512: f64 = 1.2778336969128337;
pub const SIGMIN_1024: f64 = 1.298280334344292;
const SIGMA_STAR: f64 = 1.43300980528773;

/// replays literal bytes, then uniform bytes from a seed
struct LiteralStream {
    bytes: Vec<u8>,
    pos: usize,
    tail: Prng,
    cap: usize,
}

impl RngCore for LiteralStream {
    fn next_u32(&mut self) -> u32 {
        self.pos += 1;
        if self.pos > self.cap {
            std::panic::panic_any(crate::guard::NoProgress {
                draws: self.pos as u64,
                what: "sampler_z exceeded its draw bound",
            });
        }
        if self.pos <= self.bytes.len() {
            self.bytes[self.pos - 1] as u32 | 0xabcdef00
        } else {
            self.tail.byte() as u32 | 0x12345600
        }
    }
    fn next_u64(&mut self) -> u64 {
        (self.next_u32() as u64) | ((self.next_u32() as u64) << 32)
    }
    fn fill_bytes(&mut self, dest: &mut [u8]) {
        for d in dest.iter_mut() {
            *d = self.next_u32() as u8;
        }
    }
    fn try_fill_bytes(&mut self, dest: &mut [u8]) -> Result<(), rand::Error> {
        self.fill_bytes(dest);
        Ok(())
    }
}

const CALL_CAP: u64 = 17 * 4000;

#[derive(Clone, Debug)]
pub struct SamplerCase {
    pub mu: f64,
    pub sigma: f64,
    pub sigmin: f64,
    pub mode: Mode,
    pub stream_seed: u64,
}

fn draw_params(rng: &mut Prng) -> (f64, f64, f64) {
    let sigmin = match rng.below(5) {
        0 | 1 => SIGMIN_512,
        2 | 3 => SIGMIN_1024,
        _ => SIGMA_STAR - 0.001,
    };
    let sigma = if sigmin == SIGMA_STAR - 0.001 {
        SIGMA_STAR
    } else {
        match rng.below(6) {
            0 => sigmin,
            1 => rs::SIGMA_MAX,
            2 => f64::from_bits(rs::SIGMA_MAX.to_bits() - 1),
            3 => f64::from_bits(sigmin.to_bits() + 1),
            _ => sigmin + rng.f64() * (rs::SIGMA_MAX - sigmin),
        }
    };
    let mag: f64 = match rng.below(10) {
        0 => (rng.below(32000) as f64) + 500.0,
        1 => 32704.0 - rng.below(64) as f64 - 19.0, // near the i16 limit, leaving room for z
        2 | 3 => rng.below(2000) as f64,
        _ => rng.below(8) as f64,
    };
    let frac = match rng.below(6) {
        0 => 0.0,
        1 => 0.5,
        2 => 1.0 - (0.5f64).powi(40),
        3 => (0.5f64).powi(40),
        _ => rng.f64(),
    };
    let mut mu = mag + frac;
    if rng.chance(1, 2) {
        mu = -mu;
    }
    (mu, sigma, sigmin)
}

fn draw_mode(rng: &mut Prng) -> Mode {
    if rng.chance(1, 12) {
        // a run of forced rejections: short, around powers of two, and long
        return Mode::RejectRun { call: 0, rounds: *rng.pick(&[1u64, 2, 7, 8, 15, 16, 31, 32, 33, 63, 64, 65, 100, 127, 128, 129, 255, 256, 257, 1000]) };
    }
    match rng.below(10) {
        0..=3 => Mode::Uniform,
        4..=7 => Mode::TieAt {
            call: 0,
            iter: rng.below(3),
            depth: rng.range(1, 7) as u8,
            dir: if rng.chance(1, 2) { 1 } else { -1 },
        },
        _ => Mode::TableAt {
            call: 0,
            entry: rng.below(20) as u8,
            delta: rng.below(3) as i8 - 1,
        },
    }
}

/// Run the real sampler on a simulator stream; returns (result, bytes consumed, stream landed info)
fn run_real(case: &SamplerCase) -> (Result<i16, Unwind>, Vec<u8>, u64, usize) {
    run_real_on(case, None)
}

/// the same on a simulated thread: every draw is a yield point of `handle`
fn run_real_on(case: &SamplerCase, handle: Option<std::rc::Rc<crate::sched::Handle>>) -> (Result<i16, Unwind>, Vec<u8>, u64, usize) {
    let shared = Shared::new();
    shared.borrow_mut().begin_op();
    let _inst = Installed::observer(shared.clone(), handle.clone());
    let mut st = SimStream::new(case.stream_seed, case.mode.clone(), shared.clone(), handle, CALL_CAP);
    st.what = "sampler_z exceeded its draw bound";
    st.record = Some(Vec::with_capacity(64));
    let r = guarded(|| hooks::sampler_z(case.mu, case.sigma, case.sigmin, &mut st));
    let rec = st.record.take().unwrap_or_default();
    let landed: u64 = shared.borrow().landed.values().sum();
    let depth = shared.borrow().max_tie_depth;
    (r, rec, landed, depth)
}

/// Judge one sampler call against the reference over the bytes it consumed.
/// Returns (violation class, comparable, max tie depth seen)
fn judge_call(case: &SamplerCase, r: &Result<i16, Unwind>, rec: &[u8]) -> (Option<String>, bool, usize) {
    let tag = case.mode.kind();
    let z = match r {
        Err(Unwind::Code { location, .. }) => {
            return (Some(format!("sampler_z unwinds at {} ({} stream)", location, tag)), true, 0)
        }
        Err(Unwind::NoProgress { .. }) => {
            // would the reference have returned within the bound? it consumes the same bytes
            let p = rs::prologue(case.mu, case.sigma, case.sigmin);
            let must_accept = rec.chunks_exact(17).any(|c| {
                let o = rs::iteration(&p, c.try_into().unwrap());
                o.accept_allowed && !o.reject_allowed
            });
            if must_accept {
                return (Some(format!("sampler_z does not return where the reference does ({} stream)", tag)), true, 0);
            }
            return (None, false, 0);
        }
        Ok(z) => *z,
    };
    if rec.is_empty() || rec.len() % 17 != 0 {
        return (None, false, 0);
    }
    let p = rs::prologue(case.mu, case.sigma, case.sigmin);
    let iters = rec.len() / 17;
    let mut maxd = 0;
    for (i, c) in rec.chunks_exact(17).enumerate() {
        let o = rs::iteration(&p, c.try_into().unwrap());
        maxd = maxd.max(o.tie_depth);
        if i + 1 < iters {
            if !o.reject_allowed {
                return (
                    Some(format!("sampler_z rejects a candidate the reference SamplerZ accepts ({} stream)", tag)),
                    true,
                    maxd,
                );
            }
        } else {
            if !o.accept_allowed {
                return (
                    Some(format!("sampler_z accepts a candidate the reference SamplerZ rejects ({} stream)", tag)),
                    true,
                    maxd,
                );
            }
            let want = o.z as i64 + p.s as i64;
            if want != z as i64 {
                return (
                    Some(format!("sampler_z returns a different integer than the reference SamplerZ ({} stream)", tag)),
                    true,
                    maxd,
                );
            }
        }
    }
    (None, true, maxd)
}

fn case_json(case: &SamplerCase, rec: &[u8]) -> Value {
    json!({
        "kind": "sampler_z",
        "mu_bits": format!("{:016x}", case.mu.to_bits()), "mu": case.mu,
        "sigma_bits": format!("{:016x}", case.sigma.to_bits()), "sigma": case.sigma,
        "sigmin_bits": format!("{:016x}", case.sigmin.to_bits()),
        "mode": format!("{:?}", case.mode),
        "stream_bytes_hex": hex(rec),
        "tail_seed": case.stream_seed,
    })
}

fn f64_from_hex(v: &Value) -> Option<f64> {
    Some(f64::from_bits(u64::from_str_radix(v.as_str()?, 16).ok()?))
}

// ---- wrapper-level cases -------------------------------------------------

fn judge_base(bytes: [u8; 9]) -> Option<String> {
    match guarded(|| hooks::base_sampler(bytes)) {
        Err(u) => Some(format!("base_sampler {}", u.signature())),
        Ok(v) => {
            if v != rs::base_sampler(bytes) {
                Some("base_sampler differs from the reference BaseSampler".into())
            } else {
                None
            }
        }
    }
}

fn judge_approx(x: f64, ccs: f64) -> Option<String> {
    match guarded(|| hooks::approx_exp(x, ccs)) {
        Err(u) => Some(format!("approx_exp {}", u.signature())),
        Ok(v) => {
            if v != rs::approx_exp(x, ccs) {
                Some("approx_exp differs from the reference ApproxExp".into())
            } else {
                None
            }
        }
    }
}

fn judge_ber(x: f64, ccs: f64, b: [u8; 7]) -> Option<String> {
    match guarded(|| hooks::ber_exp(x, ccs, b)) {
        Err(u) => Some(format!("ber_exp {}", u.signature())),
        Ok(v) => {
            let (t, f) = rs::ber_exp_allowed(x, ccs, &b);
            if (v && !t) || (!v && !f) {
                Some("ber_exp differs from the reference BerExp".into())
            } else {
                None
            }
        }
    }
}

/// (x, ccs) as they occur inside SamplerZ for random parameters
fn draw_x_ccs(rng: &mut Prng) -> (f64, f64) {
    if rng.chance(1, 5) {
        // free-standing: x in [0, 100), ccs in (0.6, 1]
        let x = match rng.below(5) {
            0 => 0.0,
            1 => rs::LN2 * rng.below(100) as f64,
            2 => f64::from_bits((rs::LN2 * (1 + rng.below(90)) as f64).to_bits() - 1),
            _ => rng.f64() * 100.0,
        };
        let ccs = match rng.below(4) {
            0 => 1.0,
            _ => 0.7 + 0.3 * rng.f64(),
        };
        return (x, ccs);
    }
    let (mu, sigma, sigmin) = draw_params(rng);
    let p = rs::prologue(mu, sigma, sigmin);
    let z0 = rng.below(19) as i16;
    let b = rng.below(2) as i16;
    let (_z, x) = rs::x_of(&p, z0, b);
    (x.max(0.0), p.ccs)
}

pub fn one_run(seed: u64, run: u64, calls: usize) -> RunOutcome {
    let mut rng = Prng::new(report::run_seed(seed, PROP, run));
    let mut st = Stats::default();
    let mut out = RunOutcome::default();
    let mut logh = 0u64;
    st.inc("runs");
    let mut push = |out: &mut RunOutcome, class: String, detail: String, replay: Value| {
        if !out.violations.iter().any(|v: &Violation| v.class == class) {
            out.violations.push(Violation {
                property: PROP,
                class,
                detail,
                replay,
                run,
            });
        }
    };
    // (1) sampler_z in lock-step under E1 / E2 / E3
    for i in 0..calls {
        let (mu, sigma, sigmin) = draw_params(&mut rng);
        let case = SamplerCase {
            mu,
            sigma,
            sigmin,
            mode: draw_mode(&mut rng),
            stream_seed: rng.next_u64(),
        };
        let (r, rec, landed, _d) = run_real(&case);
        st.evaluations += 1;
        st.steps += rec.len() as u64;
        st.inc(&format!("stream.{}", case.mode.kind()));
        if landed > 0 {
            st.inc(&format!("fault_landed.{}", case.mode.kind()));
        }
        st.add("sampler_iterations", (rec.len() / 17) as u64);
        let (class, comparable, depth) = judge_call(&case, &r, &rec);
        if !comparable {
            st.inc("lockstep_not_comparable");
            st.notes.insert("NOTE: consumption pattern is not 17 bytes per iteration on some calls; lock-step skipped there".into());
        }
        st.inc(&format!("tie_depth.{}", depth));
        if depth >= 2 || !matches!(case.mode, Mode::Uniform) {
            report::keep_distinct(&mut st, hash_bytes(hash_u64(mu.to_bits(), sigma.to_bits()), &rec));
        }
        logh = hash_u64(hash_bytes(logh, &rec), r.as_ref().map(|z| *z as u64).unwrap_or(0xdead));
        if run == 0 && i % 5000 == 17 {
            st.sample(json!({"case": case_json(&case, &rec), "result": format!("{:?}", r)}));
        }
        if let Some(c) = class {
            st.inc("disagreements");
            push(&mut out, c, format!("mu={} sigma={} sigmin={} mode={:?} result={:?}", mu, sigma, sigmin, case.mode, r), case_json(&case, &rec));
        }
    }
    // (2) building blocks through the wrappers
    let t = rs::rcdt();
    for i in 0..calls {
        // BaseSampler
        let u: u128 = if i % 4 == 0 {
            let e = rng.usize_below(20);
            let base: i128 = if e < 18 { t[e] as i128 } else if e == 18 { 0 } else { (1i128 << 72) - 1 };
            (base + rng.below(3) as i128 - 1).clamp(0, (1i128 << 72) - 1) as u128
        } else if i % 4 == 1 {
            // limb mix: an implementation that compares the 72-bit value limb by limb (bytes, 16-, 24-,
            // 32-bit words as in the reference C code) meets its rare paths when some limbs of u equal
            // those of a table entry and the others lie above or below; per limb take the entry's limb,
            // the entry's limb +-1, or the limb of a second value (another entry, 0, all ones, random)
            st.inc("base_sampler.limb_mix");
            let w = [8u32, 12, 16, 24, 32, 36][rng.usize_below(6)];
            let a = t[rng.usize_below(18)];
            let b: u128 = match rng.below(4) {
                0 => t[rng.usize_below(18)],
                1 => 0,
                2 => (1u128 << 72) - 1,
                _ => {
                    let mut v = 0u128;
                    for _ in 0..9 {
                        v = (v << 8) | rng.byte() as u128;
                    }
                    v
                }
            };
            let mask = (1u128 << w) - 1;
            let mut v = 0u128;
            let mut sh = 0u32;
            while sh < 72 {
                let la = (a >> sh) & mask;
                let lb = (b >> sh) & mask;
                let l = match rng.below(6) {
                    0 | 1 => la,
                    2 => la.wrapping_add(1) & mask,
                    3 => la.wrapping_sub(1) & mask,
                    _ => lb,
                };
                v |= l << sh;
                sh += w;
            }
            v & ((1u128 << 72) - 1)
        } else {
            let mut v = 0u128;
            for _ in 0..9 {
                v = (v << 8) | rng.byte() as u128;
            }
            // skew towards small values (deep table entries)
            v >> (rng.below(9) * 8)
        };
        let mut b9 = [0u8; 9];
        for k in 0..9 {
            b9[k] = (u >> (8 * (8 - k))) as u8;
        }
        st.evaluations += 1;
        if let Some(c) = judge_base(b9) {
            st.inc("disagreements");
            push(&mut out, c, format!("u={}", u), json!({"kind": "base_sampler", "bytes_hex": hex(&b9)}));
        }
        // ApproxExp
        let (x, ccs) = draw_x_ccs(&mut rng);
        let xr = {
            let s = (x / rs::LN2).floor();
            (x - rs::LN2 * s).max(0.0)
        };
        st.evaluations += 1;
        if let Some(c) = judge_approx(xr, ccs) {
            st.inc("disagreements");
            push(
                &mut out,
                c,
                format!("x={} ccs={}", xr, ccs),
                json!({"kind": "approx_exp", "x_bits": format!("{:016x}", xr.to_bits()), "ccs_bits": format!("{:016x}", ccs.to_bits())}),
            );
        }
        // BerExp with forced ties of depth 0..7 (exact: the comparand is explicit here)
        let z = rs::comparands(x, ccs)[0];
        let depth = rng.below(8) as usize;
        let mut b7 = [0u8; 7];
        for k in 0..7 {
            let zb = ((z >> (56 - 8 * k)) & 0xff) as u8;
            b7[k] = if k < depth {
                zb
            } else if k == depth {
                if rng.chance(1, 2) {
                    zb.wrapping_add(1)
                } else {
                    zb.wrapping_sub(1)
                }
            } else {
                rng.byte()
            };
        }
        st.evaluations += 1;
        st.inc(&format!("ber_tie_depth.{}", depth));
        if depth == 7 {
            st.inc("fault_landed.E2_full_tie");
        }
        report::keep_distinct(&mut st, hash_bytes(hash_u64(x.to_bits(), ccs.to_bits()), &b7));
        logh = hash_u64(logh, hash_bytes(x.to_bits(), &b7));
        if let Some(c) = judge_ber(x, ccs, b7) {
            st.inc("disagreements");
            push(
                &mut out,
                c,
                format!("x={} ccs={} bytes={} tie depth {}", x, ccs, hex(&b7), depth),
                json!({"kind": "ber_exp", "x_bits": format!("{:016x}", x.to_bits()), "ccs_bits": format!("{:016x}", ccs.to_bits()), "bytes_hex": hex(&b7)}),
            );
        }
    }
    st.log_hash = logh;
    out.stats = st;
    out
}

// ---- concurrent callers (deep batch) ------------------------------------------
//
// sign calls the sampler from every signer thread at once. A sampler that keeps anything between
// calls outside its arguments (a memo of 1/sigma, a table filled on first use) must still return,
// on every thread, what the specification returns for that thread's arguments and bytes. The
// instrumented build pre-empts at function entries (so between two accesses of such state), with
// aligned starts: two threads enter the sampler side by side and their first steps are interleaved
// finely. Each thread keeps to its own sigma' for most calls, so that "my key is in the cache" is
// the common case and a partner's write in between is what the schedule has to produce.

#[derive(Clone, Debug)]
pub struct ThreadsPlan {
    pub sched_seed: u64,
    pub switch_exp: Option<u32>,
    pub align: Option<(u32, u32)>,
    pub threads: Vec<Vec<SamplerCase>>,
}

fn case_to_plan_json(c: &SamplerCase) -> Value {
    json!({"mu_bits": format!("{:016x}", c.mu.to_bits()), "sigma_bits": format!("{:016x}", c.sigma.to_bits()), "sigmin_bits": format!("{:016x}", c.sigmin.to_bits()),
           "mode": c.mode.to_json(), "stream_seed": c.stream_seed})
}

fn case_from_plan_json(v: &Value) -> Option<SamplerCase> {
    Some(SamplerCase {
        mu: f64_from_hex(v.get("mu_bits")?)?,
        sigma: f64_from_hex(v.get("sigma_bits")?)?,
        sigmin: f64_from_hex(v.get("sigmin_bits")?)?,
        mode: Mode::from_json(v.get("mode")?)?,
        stream_seed: v.get("stream_seed")?.as_u64()?,
    })
}

impl ThreadsPlan {
    pub fn to_json(&self) -> Value {
        json!({"kind": "sampler_threads", "deep": true, "sched_seed": self.sched_seed, "switch_exp": self.switch_exp,
               "align": self.align.map(|(y, e)| vec![y, e]),
               "threads": self.threads.iter().map(|t| t.iter().map(case_to_plan_json).collect::<Vec<_>>()).collect::<Vec<_>>()})
    }
    pub fn from_json(v: &Value) -> Option<ThreadsPlan> {
        Some(ThreadsPlan {
            sched_seed: v.get("sched_seed")?.as_u64()?,
            switch_exp: v.get("switch_exp").and_then(|x| x.as_u64()).map(|x| x as u32),
            align: v.get("align").and_then(|a| a.as_array()).and_then(|a| Some((a.get(0)?.as_u64()? as u32, a.get(1)?.as_u64()? as u32))),
            threads: v.get("threads")?.as_array()?.iter().map(|t| t.as_array()?.iter().map(case_from_plan_json).collect::<Option<Vec<_>>>()).collect::<Option<Vec<_>>>()?,
        })
    }
    fn draw(rng: &mut Prng) -> ThreadsPlan {
        let nthreads = 2 + rng.usize_below(3);
        let mut threads = Vec::new();
        for _ in 0..nthreads {
            let (_, own_sigma, own_sigmin) = draw_params(rng);
            let ncalls = 20 + rng.usize_below(40);
            let mut cases = Vec::new();
            for _ in 0..ncalls {
                let (mu, s, m) = draw_params(rng);
                let (sigma, sigmin) = if rng.chance(4, 5) { (own_sigma, own_sigmin) } else { (s, m) };
                cases.push(SamplerCase { mu, sigma, sigmin, mode: if rng.chance(3, 4) { Mode::Uniform } else { draw_mode(rng) }, stream_seed: rng.next_u64() });
            }
            threads.push(cases);
        }
        ThreadsPlan {
            sched_seed: rng.next_u64(),
            switch_exp: Some(*rng.pick(&[3u32, 5, 7])),
            align: if rng.chance(4, 5) { Some((*rng.pick(&[16u32, 64, 256]), *rng.pick(&[1u32, 2, 3]))) } else { None },
            threads,
        }
    }
}

/// execute a plan; returns the first disagreement with the reference (class, detail) and scheduler statistics
fn execute_threads(plan: &ThreadsPlan) -> (Option<(String, String)>, crate::sched::SchedStats, u64) {
    type Out = Vec<(Result<i16, Unwind>, Vec<u8>)>;
    let bodies: Vec<Box<dyn FnOnce(std::rc::Rc<crate::sched::Handle>) -> Out + Send>> = plan
        .threads
        .iter()
        .map(|cases| {
            let cases = cases.clone();
            Box::new(move |h: std::rc::Rc<crate::sched::Handle>| {
                let _deep = crate::deep::install(&h);
                let mut out = Vec::with_capacity(cases.len());
                for c in cases.iter() {
                    h.set_phase(40);
                    h.boundary();
                    let (r, rec, _, _) = run_real_on(c, Some(h.clone()));
                    out.push((r, rec));
                }
                out
            }) as Box<dyn FnOnce(std::rc::Rc<crate::sched::Handle>) -> Out + Send>
        })
        .collect();
    let opts = match plan.align {
        Some((y, e)) => crate::sched::SchedOpts { align: true, dense_yields: y, dense_exp: e },
        None => crate::sched::SchedOpts::default(),
    };
    let (res, sched) = crate::sched::run_threads_opts(plan.sched_seed, plan.switch_exp, 64, opts, bodies);
    let mut calls = 0u64;
    if sched.free_running {
        return (None, sched, 0);
    }
    for (t, r) in res.iter().enumerate() {
        match r {
            Err(u) => return (Some((format!("simulated thread died: {}", u.signature()), format!("thread {}", t))), sched, calls),
            Ok(list) => {
                for (i, (r, rec)) in list.iter().enumerate() {
                    calls += 1;
                    let case = &plan.threads[t][i];
                    if let (Some(c), _, _) = judge_call(case, r, rec) {
                        return (
                            Some((format!("{} (concurrent callers)", c), format!("thread {} call {}: mu={} sigma={} sigmin={} result={:?} bytes={}", t, i, case.mu, case.sigma, case.sigmin, r, hex(rec)))),
                            sched,
                            calls,
                        );
                    }
                }
            }
        }
    }
    (None, sched, calls)
}

fn deep_run(seed: u64, run: u64) -> RunOutcome {
    let mut rng = Prng::new(report::run_seed(seed, "C09deep", run));
    let plan = ThreadsPlan::draw(&mut rng);
    let mut out = RunOutcome::default();
    let (v, sched, calls) = execute_threads(&plan);
    out.stats.inc("runs");
    out.stats.inc("runs.deep_concurrent_callers");
    out.stats.evaluations += calls;
    out.stats.steps += sched.steps;
    out.stats.add("deep.yield_points", sched.steps);
    out.stats.add("sched.switches", sched.switches);
    out.stats.add("sched.lock_handoffs", sched.lock_handoffs);
    out.stats.add("sched.aligned_starts", sched.aligned_pairs);
    if sched.free_running {
        out.stats.inc("inconclusive.schedule_infeasible");
    }
    if sched.switches > 0 {
        out.stats.interleavings.insert(sched.trace_hash);
    }
    if let Some((class, detail)) = v {
        out.violations.push(Violation { property: PROP, class, detail: format!("deep run {}: {}", run, detail), replay: plan.to_json(), run: (1 << 41) + 100 + run });
    }
    out
}

/// entry of the deep binary: `falcon-sim deepruns C09 <tier> <seed> <outfile>`
pub fn deepruns_main(tier: Tier, seed: u64, outfile: &str) -> i32 {
    let w = report::workers();
    let runs = if tier == Tier::Quick { 64u64 } else { 2000 };
    let mut out = report::parallel_runs(runs, w, |run| deep_run(seed, run));
    for (run, what) in report::take_dead_runs(&mut out.stats) {
        out.violations.push(Violation {
            property: PROP,
            class: format!("run's process died: {}", what),
            detail: format!("deep run {}", run),
            replay: json!({"kind": "rerun"}),
            run: (1 << 41) + 100 + run,
        });
    }
    match std::fs::write(outfile, out.to_bytes()) {
        Ok(_) => 0,
        Err(_) => 2,
    }
}

// ---- distribution over uniform streams -------------------------------------

pub fn law_configs() -> Vec<(f64, f64, f64)> {
    let mut v = Vec::new();
    let mus = [0.0, 0.5, 0.25, -0.75, 3.999999, -7.3, 1000.5, -12345.678, 0.9999999999, 100.0];
    let sig512 = [SIGMIN_512, 1.45, 1.7, rs::SIGMA_MAX];
    let sig1024 = [SIGMIN_1024, 1.55, rs::SIGMA_MAX];
    for (i, &mu) in mus.iter().enumerate() {
        v.push((mu, sig512[i % 4], SIGMIN_512));
        v.push((mu + 0.125, sig1024[i % 3], SIGMIN_1024));
    }
    v.push((0.0, SIGMA_STAR, SIGMA_STAR - 0.001));
    v
}

pub fn law_run(seed: u64, cfg_idx: usize, chunk: u64, samples: usize) -> RunOutcome {
    let cfgs = law_configs();
    let (mu, sigma, sigmin) = cfgs[cfg_idx];
    let mut st = Stats::default();
    let mut out = RunOutcome::default();
    let shared = Shared::new();
    shared.borrow_mut().begin_op();
    let _inst = Installed::observer(shared.clone(), None);
    let mut stream = SimStream::new(
        report::run_seed(seed, "C09law", (cfg_idx as u64) << 32 | chunk),
        Mode::Uniform,
        shared.clone(),
        None,
        u64::MAX,
    );
    let c = mu.floor() as i64;
    let mut hist = [0u64; 41];
    let mut other = 0u64;
    let r = guarded(|| {
        for _ in 0..samples {
            let z = hooks::sampler_z(mu, sigma, sigmin, &mut stream) as i64;
            let k = z - c + 20;
            if (0..41).contains(&k) {
                hist[k as usize] += 1;
            } else {
                other += 1;
            }
        }
    });
    if let Err(u) = r {
        out.violations.push(Violation {
            property: PROP,
            class: format!("sampler_z {} (E1 stream)", u.signature().replace("unwind at", "unwinds at")),
            detail: format!("mu={} sigma={} during law sampling", mu, sigma),
            replay: json!({"kind": "law", "cfg": cfg_idx, "chunk": chunk, "samples": samples, "seed": seed}),
            run: (1 << 41) + ((cfg_idx as u64) << 16 | chunk),
        });
    }
    for (k, &h) in hist.iter().enumerate() {
        if h > 0 {
            st.add(&format!("hist.{}.{}", cfg_idx, k), h);
        }
    }
    st.add(&format!("hist.{}.other", cfg_idx), other);
    st.evaluations += samples as u64;
    st.steps += stream.draws;
    st.add("law_samples", samples as u64);
    st.add("sampler_iterations", shared.borrow().probe_count("sampler_z.iteration"));
    st.log_hash = hash_u64(hash_u64(cfg_idx as u64, chunk), hist.iter().fold(0, |a, &h| hash_u64(a, h)));
    out.stats = st;
    out
}

/// upper regularised incomplete gamma Q(a, x)
fn gammq(a: f64, x: f64) -> f64 {
    fn gammln(xx: f64) -> f64 {
        let cof = [76.18009172947146, -86.50532032941677, 24.01409824083091, -1.231739572450155, 0.1208650973866179e-2, -0.5395239384953e-5];
        let mut y = xx;
        let x = xx;
        let mut tmp = x + 5.5;
        tmp -= (x + 0.5) * tmp.ln();
        let mut ser = 1.000000000190015;
        for c in cof {
            y += 1.0;
            ser += c / y;
        }
        -tmp + (2.5066282746310005 * ser / x).ln()
    }
    if x <= 0.0 {
        return 1.0;
    }
    if x < a + 1.0 {
        let mut ap = a;
        let mut del = 1.0 / a;
        let mut sum = del;
        for _ in 0..1000 {
            ap += 1.0;
            del *= x / ap;
            sum += del;
            if del.abs() < sum.abs() * 1e-16 {
                break;
            }
        }
        1.0 - sum * (-x + a * x.ln() - gammln(a)).exp()
    } else {
        let fpmin = 1e-300;
        let mut b = x + 1.0 - a;
        let mut c = 1.0 / fpmin;
        let mut d = 1.0 / b;
        let mut h = d;
        for i in 1..1000 {
            let an = -(i as f64) * (i as f64 - a);
            b += 2.0;
            d = an * d + b;
            if d.abs() < fpmin {
                d = fpmin;
            }
            c = b + an / c;
            if c.abs() < fpmin {
                c = fpmin;
            }
            d = 1.0 / d;
            let del = d * c;
            h *= del;
            if (del - 1.0).abs() < 1e-16 {
                break;
            }
        }
        (-x + a * x.ln() - gammln(a)).exp() * h
    }
}

fn evaluate_law(rep: &mut Report) {
    let cfgs = law_configs();
    let mut table = Vec::new();
    for (ci, &(mu, sigma, _sigmin)) in cfgs.iter().enumerate() {
        let c = mu.floor() as i64;
        let mut hist = vec![0u64; 41];
        for k in 0..41 {
            hist[k] = *rep.stats.counters.get(&format!("hist.{}.{}", ci, k)).unwrap_or(&0);
        }
        let other = *rep.stats.counters.get(&format!("hist.{}.other", ci)).unwrap_or(&0);
        let total: u64 = hist.iter().sum::<u64>() + other;
        if total == 0 {
            continue;
        }
        let pmf = rs::ideal_pmf(mu, sigma, c - 20, c + 20);
        // merge bins with expectation < 10 into two tails
        let nf = total as f64;
        let mut bins: Vec<(f64, f64)> = Vec::new(); // (observed, expected)
        let mut lo = (0.0, 0.0);
        let mut hi = (other as f64, nf * (1.0 - pmf.iter().sum::<f64>()).max(0.0));
        for k in 0..41 {
            let e = nf * pmf[k];
            let o = hist[k] as f64;
            if e < 10.0 {
                if (k as i64) < 20 {
                    lo.0 += o;
                    lo.1 += e;
                } else {
                    hi.0 += o;
                    hi.1 += e;
                }
            } else {
                bins.push((o, e));
            }
        }
        // the two tails together form one more bin
        bins.push((lo.0 + hi.0, lo.1 + hi.1));
        let chi2: f64 = bins.iter().filter(|b| b.1 > 0.0).map(|(o, e)| (o - e) * (o - e) / e).sum();
        let impossible = bins.iter().any(|b| b.1 <= 0.0 && b.0 > 0.0);
        let df = (bins.len() - 1) as f64;
        let p = gammq(df / 2.0, chi2 / 2.0);
        // mean and variance
        let mean_o: f64 = (0..41).map(|k| hist[k] as f64 * (c - 20 + k as i64) as f64).sum::<f64>() / nf;
        let mean_e: f64 = (0..41).map(|k| pmf[k] * (c - 20 + k as i64) as f64).sum::<f64>();
        let var_e: f64 = (0..41).map(|k| pmf[k] * ((c - 20 + k as i64) as f64 - mean_e).powi(2)).sum::<f64>();
        let var_o: f64 = (0..41).map(|k| hist[k] as f64 * ((c - 20 + k as i64) as f64 - mean_e).powi(2)).sum::<f64>() / nf;
        let z_mean = (mean_o - mean_e) / (var_e / nf).sqrt();
        // variance of the sample second moment ~ 2 var^2 / n for a near-Gaussian
        let z_var = (var_o - var_e) / (var_e * (2.0 / nf).sqrt());
        table.push(json!({"mu": mu, "sigma": sigma, "samples": total, "chi2": (chi2 * 100.0).round() / 100.0, "df": df, "p": p, "z_mean": (z_mean * 100.0).round() / 100.0, "z_var": (z_var * 100.0).round() / 100.0}));
        let mut alarm = |what: String| {
            rep.violations.push(Violation {
                property: PROP,
                class: format!("sampler_z output law deviates from D_Z,mu,sigma ({})", what),
                detail: format!("config {} mu={} sigma={} samples={} chi2={:.1} df={} p={:.3e} z_mean={:.2} z_var={:.2} other={}", ci, mu, sigma, total, chi2, df, p, z_mean, z_var, other),
                replay: json!({"kind": "law_eval", "cfg": ci, "seed": rep.seed, "tier": rep.tier.name()}),
                run: (1 << 42) + ci as u64,
            });
        };
        if impossible || p < 1e-9 {
            alarm("chi-square".into());
        } else if z_mean.abs() > 6.0 {
            alarm("mean".into());
        } else if z_var.abs() > 6.5 {
            alarm("variance".into());
        }
        rep.stats.distinct.insert(hash_u64(mu.to_bits(), sigma.to_bits()));
    }
    // drop the raw histograms from the evidence counters, keep the table
    rep.stats.counters.retain(|k, _| !k.starts_with("hist."));
    rep.extra.insert("law_table".into(), Value::Array(table));
}

fn law_batch(_seed: u64, tier: Tier) -> (usize, u64, usize) {
    // (configs, chunks per config, samples per chunk)
    match tier {
        Tier::Quick => (law_configs().len(), 8, 1 << 16),
        Tier::Thorough => (law_configs().len(), 64, 1 << 18),
    }
}

pub fn replay(doc: &Value) -> Option<String> {
    if doc.get("kind").and_then(|k| k.as_str()) == Some("sampler_threads") {
        let plan = ThreadsPlan::from_json(doc)?;
        return execute_threads(&plan).0.map(|c| c.0);
    }
    match doc.get("kind")?.as_str()? {
        "sampler_z" => {
            let mu = f64_from_hex(doc.get("mu_bits")?)?;
            let sigma = f64_from_hex(doc.get("sigma_bits")?)?;
            let sigmin = f64_from_hex(doc.get("sigmin_bits")?)?;
            let bytes = unhex(doc.get("stream_bytes_hex")?.as_str()?)?;
            let tail = doc.get("tail_seed")?.as_u64()?;
            let modes = doc.get("mode").and_then(|m| m.as_str()).unwrap_or("");
            let mode = if modes.starts_with("TieAt") {
                Mode::TieAt { call: 0, iter: 0, depth: 0, dir: 0 }
            } else if modes.starts_with("RejectRun") {
                Mode::RejectRun { call: 0, rounds: 0 }
            } else if modes.starts_with("TableAt") {
                Mode::TableAt { call: 0, entry: 0, delta: 0 }
            } else {
                Mode::Uniform
            };
            let case = SamplerCase { mu, sigma, sigmin, mode, stream_seed: tail };
            // replay the literal bytes; record what is consumed
            struct Rec<'a>(&'a mut LiteralStream, Vec<u8>);
            impl<'a> RngCore for Rec<'a> {
                fn next_u32(&mut self) -> u32 {
                    let v = self.0.next_u32();
                    self.1.push(v as u8);
                    v
                }
                fn next_u64(&mut self) -> u64 {
                    self.0.next_u64()
                }
                fn fill_bytes(&mut self, d: &mut [u8]) {
                    self.0.fill_bytes(d)
                }
                fn try_fill_bytes(&mut self, d: &mut [u8]) -> Result<(), rand::Error> {
                    self.0.try_fill_bytes(d)
                }
            }
            let mut lit = LiteralStream { bytes, pos: 0, tail: Prng::new(tail), cap: CALL_CAP as usize };
            let mut rec = Rec(&mut lit, Vec::new());
            let r = guarded(|| hooks::sampler_z(mu, sigma, sigmin, &mut rec));
            let consumed = rec.1.clone();
            judge_call(&case, &r, &consumed).0
        }
        "base_sampler" => {
            let b = unhex(doc.get("bytes_hex")?.as_str()?)?;
            judge_base(b.try_into().ok()?)
        }
        "approx_exp" => judge_approx(f64_from_hex(doc.get("x_bits")?)?, f64_from_hex(doc.get("ccs_bits")?)?),
        "ber_exp" => {
            let b = unhex(doc.get("bytes_hex")?.as_str()?)?;
            judge_ber(f64_from_hex(doc.get("x_bits")?)?, f64_from_hex(doc.get("ccs_bits")?)?, b.try_into().ok()?)
        }
        "law" => {
            let o = law_run(doc.get("seed")?.as_u64()?, doc.get("cfg")?.as_u64()? as usize, doc.get("chunk")?.as_u64()?, doc.get("samples")?.as_u64()? as usize);
            o.violations.first().map(|v| v.class.clone())
        }
        "law_eval" => {
            // statistical verdict: recompute the whole batch for that tier and seed
            let seed = doc.get("seed")?.as_u64()?;
            let tier = if doc.get("tier")?.as_str()? == "thorough" { Tier::Thorough } else { Tier::Quick };
            let cfg = doc.get("cfg")?.as_u64()?;
            let mut rep = Report::new(PROP, tier, seed);
            let (ncfg, chunks, per) = law_batch(seed, tier);
            let out = report::parallel_runs(ncfg as u64 * chunks, report::workers(), |i| law_run(seed, (i / chunks) as usize, i % chunks, per));
            rep.absorb(out);
            evaluate_law(&mut rep);
            rep.violations.iter().find(|v| v.run == (1 << 42) + cfg && v.class.contains("output law")).map(|v| v.class.clone())
        }
        _ => None,
    }
}

pub fn corpus(report: &mut Report) {
    let dir = report::verif_root().join("corpus").join(PROP);
    let mut files: Vec<_> = match std::fs::read_dir(&dir) {
        Ok(rd) => rd.filter_map(|e| e.ok()).map(|e| e.path()).filter(|p| p.extension().map(|x| x == "json").unwrap_or(false)).collect(),
        Err(_) => return,
    };
    files.sort();
    for f in files {
        let doc: Value = match std::fs::read_to_string(&f).ok().and_then(|s| serde_json::from_str(&s).ok()) {
            Some(v) => v,
            None => continue,
        };
        report.stats.inc("corpus.replayed");
        report.stats.evaluations += 1;
        if let Some(class) = replay(&doc) {
            report.violations.push(Violation {
                property: PROP,
                class,
                detail: format!("regression corpus entry {}", f.display()),
                replay: doc.clone(),
                run: 0,
            });
        }
    }
}

fn sizes(tier: Tier) -> (u64, usize) {
    match tier {
        Tier::Quick => (160u64, 12_000usize),
        Tier::Thorough => (3200u64, 40_000usize),
    }
}

/// one index space: lock-step / building-block runs first, then the law chunks
fn dispatch(tier: Tier, seed: u64, run: u64) -> RunOutcome {
    let (runs, calls) = sizes(tier);
    if run < runs {
        one_run(seed, run, calls)
    } else {
        let (_ncfg, chunks, per) = law_batch(seed, tier);
        let i = run - runs;
        law_run(seed, (i / chunks) as usize, i % chunks, per)
    }
}

pub fn runner(tier: Tier, seed: u64) -> Option<(u64, Box<dyn Fn(u64) -> RunOutcome + Sync>)> {
    let (runs, _) = sizes(tier);
    let (ncfg, chunks, _) = law_batch(seed, tier);
    Some((runs + ncfg as u64 * chunks, Box::new(move |run| dispatch(tier, seed, run))))
}

pub fn rerun(tier: Tier, seed: u64, run: u64) -> Option<RunOutcome> {
    Some(dispatch(tier, seed, run))
}

pub fn check(tier: Tier, seed: u64) -> i32 {
    let mut rep = Report::new(PROP, tier, seed);
    if tier == Tier::Thorough {
        report::DISTINCT_SHIFT.store(6, std::sync::atomic::Ordering::Relaxed);
    }
    let w = report::workers();
    let (runs, _calls) = sizes(tier);
    corpus(&mut rep);
    let (ncfg, chunks, _per) = law_batch(seed, tier);
    let out = report::parallel_runs(runs + ncfg as u64 * chunks, w, |run| dispatch(tier, seed, run));
    rep.absorb(out);
    evaluate_law(&mut rep);
    // deep batch: concurrent callers under function-entry pre-emption with aligned starts
    match crate::props::run_deep_batch(PROP, tier, seed) {
        Ok(Some(o)) => rep.absorb(o),
        Ok(None) => {
            rep.stats.notes.insert("NOTE: no instrumented (deep) build available; the concurrent-callers batch was skipped".into());
        }
        Err(e) => {
            eprintln!("HARNESS-ERROR: {}", e);
            return 2;
        }
    }
    rep.rule = "a case is one call of sampler_z (through the H4 wrapper) on a simulator-owned byte stream in mode E1 (uniform), E2 (Bernoulli bytes forced to tie with the comparand on 1..7 bytes, then +-1), E6 (1..1000 consecutive forced rejections, then uniform) or E3 (base-sampler bytes at RCDT[i]-1/RCDT[i]/RCDT[i]+1, 0, 2^72-1), judged in lock-step by the reference SamplerZ over the bytes actually consumed; or one call of base_sampler / approx_exp / ber_exp through the wrappers, compared with the reference on integers; or one of the fixed (mu, sigma') law configurations sampled over uniform streams; or one call of sampler_z made by one of 2-4 baton-scheduled threads that call the sampler side by side (instrumented build: pre-emption at function entries, aligned starts), judged in lock-step like the first kind; base_sampler inputs include limb mixes (per 8/12/16/24/32/36-bit limb: a table entry's limb, that +-1, or the limb of another value); non-trivial = a faulted stream, a tie of depth >= 2, or a building-block input; distinct = distinct (parameters, consumed bytes)".to_string() + &report::distinct_rule_suffix();
    rep.assumptions = vec![
        "reference RCDT and ApproxExp constants are those of the reference C implementation (PQClean sign.c / fpr.c), the algorithms those of specification Alg. 12-15".into(),
        "float prologue ambiguity (x/ln2 vs x*(1/ln2), last-ulp differences in x) is tolerated: a decision is binding only if it is the same for x and its float neighbours".into(),
        "on a 7-byte full tie the specification reads an 8th byte the interface does not supply: either boolean is accepted, an unwind is not".into(),
        "law tests: chi-square alarm at p < 1e-9, mean at 6 sigma, variance at 6.5 sigma, fixed default seed".into(),
    ];
    rep.components = json!({
        "real": ["sampler_z", "base_sampler", "approx_exp", "ber_exp (via read-only hook wrappers H4)"],
        "stub": ["the RngCore stream (simulator-owned, modes E1/E2/E3/E6)", "thread scheduler (baton, deep batch)"],
        "model": ["reference SamplerZ / BaseSampler / ApproxExp / BerExp", "ideal D_Z,mu,sigma pmf"],
    });
    rep.finish(report::confirm_in_fresh_process)
}
