//! C05 — keys and signatures survive serialisation. A signer node goes through
//! keygen -> publish pk bytes -> persist sk bytes -> sign* -> CRASH -> restart
//! from the bytes on the simulated disk -> sign* ...; only serialised state
//! survives a crash. Verifier nodes hold only the bytes published before the
//! first crash. Disk and channel are fault-free here.

use crate::guard::Unwind;
use crate::report::{self, Report, RunOutcome, Stats, Tier, Violation};
use crate::rng::{counter_seed, hash_bytes, hex, unhex, Prng};
use crate::variant::{Variant, V1024, V512};
use crate::world::{self, SignPlan};
use serde_json::{json, Value};

pub const PROP: &str = "C05";

#[derive(Clone, Debug)]
pub enum Op {
    Sign { msg: Vec<u8>, stream: u64, norm_rejects: u8, compress_fails: u8 },
    Crash,
    /// a second signer node (Falcon-512, its own key) living in the same process
    /// restarts from its own disk and signs: state kept outside the key objects
    /// would leak between the two nodes
    Neighbour { reload: bool, msg: Vec<u8>, stream: u64 },
    /// the node first tries to load a damaged copy of its key file (a reserved field pattern at
    /// `field`, or a flipped header bit if `field` is None) - which must be refused - and only then
    /// the good one; nothing about the good key may depend on the failed attempt
    FailedLoad { field: Option<usize> },
}

impl Op {
    fn to_json(&self) -> Value {
        match self {
            Op::Sign { msg, stream, norm_rejects, compress_fails } => {
                json!({"op": "sign", "msg_hex": crate::rng::msg_hex(msg), "stream": stream, "norm_rejects": norm_rejects, "compress_fails": compress_fails})
            }
            Op::Crash => json!({"op": "crash"}),
            Op::Neighbour { reload, msg, stream } => json!({"op": "neighbour", "reload": reload, "msg_hex": crate::rng::msg_hex(msg), "stream": stream}),
            Op::FailedLoad { field } => json!({"op": "failed_load", "field": field}),
        }
    }
    fn from_json(v: &Value) -> Option<Op> {
        match v.get("op")?.as_str()? {
            "crash" => Some(Op::Crash),
            "failed_load" => Some(Op::FailedLoad { field: v.get("field").and_then(|f| f.as_u64()).map(|f| f as usize) }),
            "neighbour" => Some(Op::Neighbour {
                reload: v.get("reload")?.as_bool()?,
                msg: crate::rng::msg_unhex(v.get("msg_hex")?.as_str()?)?,
                stream: v.get("stream")?.as_u64()?,
            }),
            "sign" => Some(Op::Sign {
                msg: crate::rng::msg_unhex(v.get("msg_hex")?.as_str()?)?,
                stream: v.get("stream")?.as_u64()?,
                norm_rejects: v.get("norm_rejects")?.as_u64()? as u8,
                compress_fails: v.get("compress_fails")?.as_u64()? as u8,
            }),
            _ => None,
        }
    }
}

#[derive(Clone, Debug)]
pub struct Plan {
    pub n: usize,
    pub key_seed: [u8; 32],
    /// seed of the neighbour node's key, if the plan has neighbour operations
    pub other_seed: Option<[u8; 32]>,
    pub ops: Vec<Op>,
}

impl Plan {
    pub fn to_json(&self) -> Value {
        json!({"kind": "lifecycle", "n": self.n, "key_seed_hex": hex(&self.key_seed), "other_seed_hex": self.other_seed.map(|s| hex(&s)),
               "ops": self.ops.iter().map(|o| o.to_json()).collect::<Vec<_>>()})
    }
    pub fn from_json(v: &Value) -> Option<Plan> {
        Some(Plan {
            n: v.get("n")?.as_u64()? as usize,
            key_seed: unhex(v.get("key_seed_hex")?.as_str()?)?.try_into().ok()?,
            other_seed: v.get("other_seed_hex").and_then(|x| x.as_str()).and_then(unhex).and_then(|b| b.try_into().ok()),
            ops: v.get("ops")?.as_array()?.iter().map(Op::from_json).collect::<Option<Vec<_>>>()?,
        })
    }
    pub fn draw(rng: &mut Prng, n: usize, key_seed: [u8; 32]) -> Plan {
        let mut ops = Vec::new();
        let crashes = 1 + rng.usize_below(3);
        let total = crashes + 1 + rng.usize_below(5);
        let mut crash_at: Vec<usize> = (0..crashes).map(|_| rng.usize_below(total)).collect();
        crash_at.sort();
        for i in 0..total {
            if crash_at.contains(&i) {
                ops.push(Op::Crash);
            } else {
                let bug = rng.chance(1, 3);
                ops.push(Op::Sign {
                    msg: world::message(rng),
                    stream: rng.next_u64(),
                    norm_rejects: if bug { rng.below(3) as u8 } else { 0 },
                    compress_fails: if bug { rng.below(3) as u8 } else { 0 },
                });
            }
        }
        // at least one signature after the last crash
        ops.push(Op::Sign {
            msg: world::message(rng),
            stream: rng.next_u64(),
            norm_rejects: 0,
            compress_fails: 0,
        });
        // a third of the life-cycles see a failed load of a damaged key file right before a restart
        if rng.chance(1, 3) {
            if let Some(pos) = ops.iter().position(|o| matches!(o, Op::Crash)) {
                let field = if rng.chance(4, 5) { Some(1 + rng.usize_below(3 * n - 1)) } else { None };
                ops.insert(pos, Op::FailedLoad { field });
            }
        }
        // a quarter of the life-cycles share their process with a neighbour node
        let mut other_seed = None;
        if rng.chance(1, 4) {
            other_seed = Some(rng.seed32());
            let k = 1 + rng.usize_below(3);
            for _ in 0..k {
                let at = rng.usize_below(ops.len() + 1);
                ops.insert(at, Op::Neighbour { reload: rng.chance(2, 3), msg: world::message(rng), stream: rng.next_u64() });
            }
        }
        Plan { n, key_seed, other_seed, ops }
    }
}

pub struct Outcome {
    pub class: Option<(String, String)>,
    pub stats: Stats,
    pub log_hash: u64,
}

/// Execute a life-cycle plan; stops at the first violated invariant.
pub fn execute<V: Variant>(plan: &Plan) -> Outcome {
    let mut st = Stats::default();
    let mut log = report::EventLog::new(false);
    let fail = |st: Stats, log: report::EventLog, class: String, detail: String| Outcome {
        class: Some((class, detail)),
        stats: st,
        log_hash: log.hash,
    };
    let n = V::N;
    st.inc("lifecycles");
    // boot: keygen
    let (r, ktr) = world::keygen_sim::<V>(plan.key_seed, None, None);
    st.add("ntru_gen_attempts", ktr.attempts);
    st.steps += ktr.seed_draws;
    let (sk, pk) = match r {
        Ok(x) => x,
        Err(Unwind::NoProgress { what, .. }) => return fail(st, log, format!("keygen{} makes no progress: {}", n, what), String::new()),
        Err(Unwind::Code { location, message }) => return fail(st, log, format!("keygen{} unwinds at {}", n, location), message),
    };
    let disk = V::sk_to_bytes(&sk);
    let published = V::pk_to_bytes(&pk);
    log.event(&format!("keygen {:016x} {:016x}", hash_bytes(0, &disk), hash_bytes(0, &published)));
    if disk.len() != V::SK_LEN {
        return fail(st, log, format!("secret key{} encodes to {} bytes instead of {}", n, disk.len(), V::SK_LEN), String::new());
    }
    if published.len() != V::PK_LEN {
        return fail(st, log, format!("public key{} encodes to {} bytes instead of {}", n, published.len(), V::PK_LEN), String::new());
    }
    // the verifier decodes the published key once
    let vpk = match crate::guard::guarded(|| V::pk_from_bytes(&published)) {
        Ok(Ok(k)) => k,
        Ok(Err(e)) => return fail(st, log, format!("PublicKey{}::from_bytes rejects bytes written by to_bytes ({})", n, e), String::new()),
        Err(u) => return fail(st, log, format!("PublicKey{}::from_bytes {} on bytes written by to_bytes", n, u.signature()), String::new()),
    };
    if vpk != pk {
        return fail(st, log, format!("decoded public key{} differs from the original", n), String::new());
    }
    if V::pk_to_bytes(&vpk) != published {
        return fail(st, log, format!("decoded public key{} re-encodes differently", n), String::new());
    }
    let mut live = sk;
    let mut restarts = 0u32;
    // the neighbour node (generated only if the plan uses it)
    let mut neighbour: Option<(<V512 as Variant>::Sk, <V512 as Variant>::Pk, Vec<u8>)> = None;
    if let (Some(os), true) = (plan.other_seed, plan.ops.iter().any(|o| matches!(o, Op::Neighbour { .. }))) {
        match world::keygen_sim::<V512>(os, None, None).0 {
            Ok((nsk, npk)) => {
                let disk2 = V512::sk_to_bytes(&nsk);
                neighbour = Some((nsk, npk, disk2));
            }
            Err(u) => return fail(st, log, format!("keygen512 {} (neighbour node)", u.signature()), String::new()),
        }
    }
    for (i, op) in plan.ops.iter().enumerate() {
        match op {
            Op::FailedLoad { field } => {
                st.inc("fault.failed_load_of_damaged_copy");
                let mut bad = disk.clone();
                let p = crate::reference::codec::params(n);
                match field {
                    Some(fi) => {
                        // field index over f (n fields), g (n), F (n): reserved pattern 100..0
                        let w = p.fg_bits;
                        let (off, width) = if *fi < n { (8 + w * fi, w) } else if *fi < 2 * n { (8 + w * n + w * (fi - n), w) } else { (8 + 2 * w * n + 8 * (fi - 2 * n), 8) };
                        crate::byz::set_bits(&mut bad, off, width, 1 << (width - 1));
                    }
                    None => bad[0] ^= 0x20,
                }
                match crate::guard::guarded(|| V::sk_from_bytes(&bad)) {
                    Ok(_) => {} // Ok or Err: strictness is C06's subject; what matters is what happens next
                    Err(u) => return fail(st, log, format!("SecretKey{}::from_bytes {} on a damaged key file", n, u.signature()), format!("op {}", i)),
                }
            }
            Op::Neighbour { reload, msg, stream } => {
                if let Some((nsk, npk, disk2)) = neighbour.as_mut() {
                    st.inc("neighbour_ops");
                    if *reload {
                        match crate::guard::guarded(|| V512::sk_from_bytes(disk2)) {
                            Ok(Ok(k)) => {
                                if k != *nsk {
                                    return fail(st, log, "reloaded secret key512 differs from the key that was serialised".to_string(), format!("neighbour node, op {}", i));
                                }
                                *nsk = k;
                            }
                            Ok(Err(e)) => return fail(st, log, format!("SecretKey512::from_bytes rejects bytes written by to_bytes ({})", e), format!("neighbour node, op {}", i)),
                            Err(u) => return fail(st, log, format!("SecretKey512::from_bytes {} on bytes written by to_bytes", u.signature()), format!("neighbour node, op {}", i)),
                        }
                    }
                    let (r, tr) = world::sign_sim::<V512>(nsk, msg, &SignPlan::uniform(*stream), None);
                    st.steps += tr.draws;
                    match r {
                        Ok(sig) => match crate::guard::guarded(|| V512::verify(msg, &sig, npk)) {
                            Ok(true) => {}
                            Ok(false) => return fail(st, log, "signature512 made after restart does not verify under the originally published public key".to_string(), format!("neighbour node, op {}", i)),
                            Err(u) => return fail(st, log, format!("verify512 {} on an honest signature", u.signature()), format!("neighbour node, op {}", i)),
                        },
                        Err(Unwind::NoProgress { .. }) => return fail(st, log, "sign512 makes no progress after restart".to_string(), format!("neighbour node, op {}", i)),
                        Err(Unwind::Code { location, message }) => return fail(st, log, format!("sign512 unwinds at {} after restart", location), message),
                    }
                }
            }
            Op::Crash => {
                st.inc("fault.X1_crash");
                // only the disk survives
                let r = crate::guard::guarded(|| V::sk_from_bytes(&disk));
                let reloaded = match r {
                    Ok(Ok(k)) => k,
                    Ok(Err(e)) => {
                        return fail(st, log, format!("SecretKey{}::from_bytes rejects bytes written by to_bytes ({})", n, e), format!("after crash at op {}", i))
                    }
                    Err(u) => {
                        return fail(st, log, format!("SecretKey{}::from_bytes {} on bytes written by to_bytes", n, u.signature()), format!("after crash at op {}", i))
                    }
                };
                restarts += 1;
                log.event(&format!("restart {}", restarts));
                if reloaded != live {
                    return fail(st, log, format!("reloaded secret key{} differs from the key that was serialised", n), format!("after crash at op {}", i));
                }
                if V::sk_to_bytes(&reloaded) != disk {
                    return fail(st, log, format!("reloaded secret key{} re-encodes differently", n), format!("after crash at op {}", i));
                }
                live = reloaded;
            }
            Op::Sign { msg, stream, norm_rejects, compress_fails } => {
                let mut sp = SignPlan::uniform(*stream);
                if *norm_rejects > 0 {
                    sp.fire.push(("sign.norm_reject", (0..*norm_rejects as u64).collect()));
                }
                if *compress_fails > 0 {
                    sp.fire.push(("sign.compress_fail", (0..*compress_fails as u64).collect()));
                }
                let (r, tr) = world::sign_sim::<V>(&live, msg, &sp, None);
                st.steps += tr.draws;
                st.add("fault.B1_forced_norm_reject", *tr.fired.get("sign.norm_reject").unwrap_or(&0));
                st.add("fault.B2_forced_compress_fail", *tr.fired.get("sign.compress_fail").unwrap_or(&0));
                st.add("natural.norm_reject", *tr.probes.get("sign.norm_reject").unwrap_or(&0));
                let when = if restarts > 0 { "after restart" } else { "before any crash" };
                let sig = match r {
                    Ok(s) => s,
                    Err(Unwind::NoProgress { .. }) => {
                        return fail(st, log, format!("sign{} makes no progress {}", n, when), format!("op {} restarts {}", i, restarts))
                    }
                    Err(Unwind::Code { location, message }) => {
                        return fail(st, log, format!("sign{} unwinds at {} {}", n, location, when), message)
                    }
                };
                st.inc(if restarts > 0 { "signatures.after_restart" } else { "signatures.before_crash" });
                let sb = V::sig_to_bytes(&sig);
                log.event(&format!("sign {} {:016x}", i, hash_bytes(0, &sb)));
                if sb.len() != V::SIG_LEN {
                    return fail(st, log, format!("signature{} encodes to {} bytes instead of {}", n, sb.len(), V::SIG_LEN), String::new());
                }
                let back = match crate::guard::guarded(|| V::sig_from_bytes(&sb)) {
                    Ok(Ok(s)) => s,
                    Ok(Err(e)) => return fail(st, log, format!("Signature{}::from_bytes rejects bytes written by to_bytes ({})", n, e), String::new()),
                    Err(u) => return fail(st, log, format!("Signature{}::from_bytes {} on bytes written by to_bytes", n, u.signature()), String::new()),
                };
                if back != sig {
                    return fail(st, log, format!("decoded signature{} differs from the original", n), String::new());
                }
                // the verifier only has what was published before the first crash
                for (label, s) in [("in-memory", &sig), ("decoded", &back)] {
                    match crate::guard::guarded(|| V::verify(msg, s, &vpk)) {
                        Ok(true) => {}
                        Ok(false) => {
                            return fail(
                                st,
                                log,
                                format!("signature{} made {} does not verify under the originally published public key", n, when),
                                format!("op {} ({} signature)", i, label),
                            )
                        }
                        Err(u) => return fail(st, log, format!("verify{} {} on an honest signature", n, u.signature()), String::new()),
                    }
                }
                // equality is not a property of fresh objects only: both signature objects have now been used
                match crate::guard::guarded(|| V::sig_from_bytes(&sb)) {
                    Ok(Ok(again)) => {
                        if again != sig || again != back {
                            return fail(st, log, format!("decoded signature{} differs from the original once the original has been verified", n), format!("op {}", i));
                        }
                    }
                    _ => return fail(st, log, format!("Signature{}::from_bytes refuses bytes it accepted before", n), format!("op {}", i)),
                }
                if V::sig_to_bytes(&sig) != sb || V::sig_to_bytes(&back) != sb {
                    return fail(st, log, format!("signature{} encodes differently once it has been verified", n), format!("op {}", i));
                }
            }
        }
    }
    // a verifier that joins late decodes the published bytes again: the object must equal the one
    // decoded at boot (used for every verification since) and the signer's original (never used so far)
    st.inc("late_joiner_checks");
    let late = match crate::guard::guarded(|| V::pk_from_bytes(&published)) {
        Ok(Ok(k)) => k,
        _ => return fail(st, log, format!("PublicKey{}::from_bytes refuses bytes it accepted at boot", n), String::new()),
    };
    if late != vpk {
        return fail(st, log, format!("decoded public key{} differs from an earlier decoding of the same bytes that has been used to verify", n), String::new());
    }
    if late != pk {
        return fail(st, log, format!("decoded public key{} differs from the original", n), "at the end of the life-cycle".to_string());
    }
    if V::pk_to_bytes(&vpk) != published || V::pk_to_bytes(&pk) != published {
        return fail(st, log, format!("public key{} encodes differently at the end of its life-cycle", n), String::new());
    }
    // ... and the other way round: the original is used (one more signature), then compared with fresh decodings
    {
        let msg = b"late joiner".to_vec();
        let (r, _) = world::sign_sim::<V>(&live, &msg, &SignPlan::uniform(hash_bytes(77, &plan.key_seed)), None);
        if let Ok(sig) = r {
            match crate::guard::guarded(|| V::verify(&msg, &sig, &pk)) {
                Ok(true) => {}
                Ok(false) => return fail(st, log, format!("signature{} does not verify under the signer's own public key object", n), "at the end of the life-cycle".to_string()),
                Err(u) => return fail(st, log, format!("verify{} {} on an honest signature", n, u.signature()), String::new()),
            }
            let fresh = match crate::guard::guarded(|| V::pk_from_bytes(&published)) {
                Ok(Ok(k)) => k,
                _ => return fail(st, log, format!("PublicKey{}::from_bytes refuses bytes it accepted at boot", n), String::new()),
            };
            if fresh != pk || late != pk {
                return fail(st, log, format!("decoded public key{} differs from the original once the original has been used to verify", n), String::new());
            }
        }
        // the secret key object has signed throughout: a last reload must still equal it
        match crate::guard::guarded(|| V::sk_from_bytes(&disk)) {
            Ok(Ok(k)) => {
                if k != live {
                    return fail(st, log, format!("reloaded secret key{} differs from the key that was serialised", n), "at the end of the life-cycle".to_string());
                }
                if V::sk_to_bytes(&live) != disk {
                    return fail(st, log, format!("secret key{} encodes differently after it has signed", n), String::new());
                }
            }
            _ => return fail(st, log, format!("SecretKey{}::from_bytes refuses bytes it accepted before", n), "at the end of the life-cycle".to_string()),
        }
    }
    st.add("restarts", restarts as u64);
    Outcome {
        class: None,
        stats: st,
        log_hash: log.hash,
    }
}

pub fn execute_dyn(plan: &Plan) -> Outcome {
    if plan.n == 512 {
        execute::<V512>(plan)
    } else {
        execute::<V1024>(plan)
    }
}

fn minimise(plan: &Plan, class: &str) -> Plan {
    let same = |p: &Plan| execute_dyn(p).class.map(|c| c.0).as_deref() == Some(class);
    let sign = Op::Sign {
        msg: vec![],
        stream: 1,
        norm_rejects: 0,
        compress_fails: 0,
    };
    for ops in [vec![], vec![Op::Crash], vec![sign.clone()], vec![Op::Crash, sign.clone()]] {
        let p = Plan {
            n: plan.n,
            key_seed: plan.key_seed,
            other_seed: plan.other_seed,
            ops,
        };
        if same(&p) {
            return p;
        }
    }
    // drop operations one at a time
    let mut cur = plan.clone();
    let mut i = 0;
    while i < cur.ops.len() {
        let mut t = cur.clone();
        t.ops.remove(i);
        if same(&t) {
            cur = t;
        } else {
            i += 1;
        }
    }
    cur
}

fn run_plan(plan: &Plan, run: u64, do_minimise: bool) -> RunOutcome {
    let o = execute_dyn(plan);
    let mut out = RunOutcome::default();
    out.stats = o.stats;
    out.stats.inc("runs");
    out.stats.evaluations += 1;
    out.stats.log_hash = o.log_hash;
    out.stats.distinct.insert(hash_bytes(plan.n as u64, &plan.key_seed));
    if let Some((class, detail)) = o.class {
        let m = if do_minimise { minimise(plan, &class) } else { plan.clone() };
        out.violations.push(Violation {
            property: PROP,
            class,
            detail: format!("key seed {} {}", hex(&plan.key_seed), detail),
            replay: m.to_json(),
            run,
        });
    }
    out
}

// ---------------------------------------------------------------------------
// deep batch (instrumented build, function-entry yield points): several caller
// threads serialise and deserialise keys and signatures of many keys at the same
// time; every result must be what the same call yields alone
// ---------------------------------------------------------------------------

fn deep_run(seed: u64, run: u64, pool: &world::KeyPool<V512>, pool2: &world::KeyPool<V1024>) -> RunOutcome {
    use crate::sched::{run_threads, Handle};
    use std::rc::Rc;
    use std::sync::Arc;
    let mut rng = Prng::new(report::run_seed(seed, "C05deep", run));
    let mut out = RunOutcome::default();
    let mut k512 = Vec::new();
    for k in &pool.keys {
        match k.load() {
            Ok(kp) => k512.push((kp, k.sk_bytes.clone(), k.pk_bytes.clone(), k.sigs.clone())),
            Err(_) => {
                out.stats.inc("harness.pool_key_not_loadable");
                return out;
            }
        }
    }
    let mut k1024 = Vec::new();
    for k in &pool2.keys {
        match k.load() {
            Ok(kp) => k1024.push((kp, k.sk_bytes.clone(), k.pk_bytes.clone(), k.sigs.clone())),
            Err(_) => {
                out.stats.inc("harness.pool_key_not_loadable");
                return out;
            }
        }
    }
    let a = Arc::new(k512);
    let b = Arc::new(k1024);
    let nthreads = 2 + rng.usize_below(5);
    // per thread: (variant, key index, what) triples
    let plans: Vec<Vec<(usize, usize, u8)>> = (0..nthreads)
        .map(|_| (0..20 + rng.usize_below(40)).map(|_| (if rng.chance(1, 4) { 1024 } else { 512 }, rng.usize_below(64), rng.below(4) as u8)).collect())
        .collect();
    let total_ops: u64 = plans.iter().map(|p| p.len() as u64).sum();
    let budget = *rng.pick(&[30u64, 100, 300, 1000, 3000]);
    let mut k = 0u32;
    while k < 30 && ((total_ops * 3) >> k) > budget {
        k += 1;
    }
    fn one<V: Variant>(e: &((V::Sk, V::Pk), Vec<u8>, Vec<u8>, Vec<(Vec<u8>, Vec<u8>)>), what: u8) -> Option<String> {
        let ((sk, pk), skb, pkb, sigs) = e;
        match what {
            0 => {
                if V::pk_to_bytes(pk) != *pkb {
                    return Some(format!("PublicKey{}::to_bytes returned a different encoding than the same call alone", V::N));
                }
            }
            1 => {
                if V::sk_to_bytes(sk) != *skb {
                    return Some(format!("SecretKey{}::to_bytes returned a different encoding than the same call alone", V::N));
                }
            }
            2 => match V::pk_from_bytes(pkb) {
                Ok(p2) => {
                    if p2 != *pk {
                        return Some(format!("decoded public key{} differs from the original", V::N));
                    }
                }
                Err(e) => return Some(format!("PublicKey{}::from_bytes rejects bytes written by to_bytes ({})", V::N, e)),
            },
            _ => {
                if let Some((_m, sb)) = sigs.first() {
                    match V::sig_from_bytes(sb) {
                        Ok(s2) => {
                            if V::sig_to_bytes(&s2) != *sb {
                                return Some(format!("decoded signature{} re-encodes differently", V::N));
                            }
                        }
                        Err(e) => return Some(format!("Signature{}::from_bytes rejects bytes written by to_bytes ({})", V::N, e)),
                    }
                }
            }
        }
        None
    }
    let bodies: Vec<Box<dyn FnOnce(Rc<Handle>) -> Option<(usize, String)> + Send>> = plans
        .iter()
        .map(|ops| {
            let ops = ops.clone();
            let (a, b) = (a.clone(), b.clone());
            Box::new(move |h: Rc<Handle>| {
                let _deep = crate::deep::install(&h);
                for (i, (n, ki, what)) in ops.iter().enumerate() {
                    h.boundary();
                    let r = crate::guard::guarded(|| if *n == 512 { one::<V512>(&a[ki % a.len()], *what) } else { one::<V1024>(&b[ki % b.len()], *what) });
                    match r {
                        Ok(None) => {}
                        Ok(Some(c)) => return Some((i, c)),
                        Err(u) => return Some((i, format!("serialisation {} under concurrency", u.signature()))),
                    }
                }
                None
            }) as Box<dyn FnOnce(Rc<Handle>) -> Option<(usize, String)> + Send>
        })
        .collect();
    let (res, sched) = run_threads(rng.next_u64(), Some(k), 64, bodies);
    out.stats.inc("runs");
    out.stats.inc("runs.deep");
    if sched.free_running {
        out.stats.inc("inconclusive.schedule_infeasible");
        return out;
    }
    out.stats.steps += sched.steps;
    out.stats.add("deep.yield_points", sched.steps);
    out.stats.add("sched.switches", sched.switches);
    out.stats.add("sched.lock_handoffs", sched.lock_handoffs);
    out.stats.evaluations += total_ops;
    if sched.switches > 0 {
        out.stats.interleavings.insert(sched.trace_hash);
        out.stats.distinct.insert(sched.trace_hash);
    }
    out.stats.log_hash = sched.trace_hash;
    for (t, r) in res.iter().enumerate() {
        if let Ok(Some((i, class))) = r {
            out.violations.push(Violation {
                property: PROP,
                class: class.clone(),
                detail: format!("deep run {}: thread {} op {} of {} threads", run, t, i, nthreads),
                replay: json!({"kind": "deep-rerun", "deep": true, "deep_seed": seed, "deep_run": run, "tier": if pool.keys.len() > 12 { "thorough" } else { "quick" }}),
                run: (1 << 41) + run,
            });
            break;
        }
    }
    out
}

fn deep_sizes(tier: Tier) -> (u64, usize, usize) {
    match tier {
        Tier::Quick => (120, 8, 3),
        Tier::Thorough => (3000, 16, 6),
    }
}

/// entry of the deep binary: `falcon-sim deepruns C05 <tier> <seed> <outfile>`
pub fn deepruns_main(tier: Tier, seed: u64, outfile: &str) -> i32 {
    let w = report::workers();
    let (runs, n512, n1024) = deep_sizes(tier);
    let pool: world::KeyPool<V512> = world::KeyPool::build(report::run_seed(seed, "c05-deep-pool", 0), n512, 1, w);
    let pool2: world::KeyPool<V1024> = world::KeyPool::build(report::run_seed(seed, "c05-deep-pool", 1), n1024, 1, w);
    if pool.keys.len() < n512 || pool2.keys.len() < n1024 {
        eprintln!("HARNESS-ERROR: deep key pool could not be built");
        return 2;
    }
    let mut out = report::parallel_runs(runs, w, |run| deep_run(seed, run, &pool, &pool2));
    for (run, what) in report::take_dead_runs(&mut out.stats) {
        out.violations.push(Violation {
            property: PROP,
            class: format!("run's process died: {}", what),
            detail: format!("deep run {}", run),
            replay: json!({"kind": "deep-rerun", "deep": true, "tier": tier.name(), "deep_seed": seed, "deep_run": run}),
            run: (1 << 41) + run,
        });
    }
    match std::fs::write(outfile, out.to_bytes()) {
        Ok(_) => 0,
        Err(_) => 2,
    }
}

fn replay_deep_rerun(doc: &Value) -> Option<String> {
    let tier = if doc.get("tier")?.as_str()? == "thorough" { Tier::Thorough } else { Tier::Quick };
    let seed = doc.get("deep_seed")?.as_u64()?;
    let run = doc.get("deep_run")?.as_u64()?;
    let (_runs, n512, n1024) = deep_sizes(tier);
    let w = report::workers();
    let pool: world::KeyPool<V512> = world::KeyPool::build(report::run_seed(seed, "c05-deep-pool", 0), n512, 1, w);
    let pool2: world::KeyPool<V1024> = world::KeyPool::build(report::run_seed(seed, "c05-deep-pool", 1), n1024, 1, w);
    let want = doc.get("violation").and_then(|v| v.as_str()).unwrap_or("");
    match crate::isolate::isolated(|| deep_run(seed, run, &pool, &pool2).to_bytes(), crate::isolate::run_timeout_s()) {
        Ok(b) => {
            let o = RunOutcome::from_bytes(&b)?;
            if o.violations.iter().any(|v| v.class == want) {
                Some(want.to_string())
            } else {
                o.violations.first().map(|v| v.class.clone())
            }
        }
        Err(f) => Some(format!("run's process died: {}", f.describe())),
    }
}

pub fn replay(doc: &Value) -> Option<String> {
    if doc.get("kind").and_then(|k| k.as_str()) == Some("deep-rerun") {
        return replay_deep_rerun(doc);
    }
    let plan = Plan::from_json(doc)?;
    execute_dyn(&plan).class.map(|c| c.0)
}

/// pinned seeds: lines "<n> <counter>" (little-endian counter in the first 8 seed bytes)
pub fn pinned() -> Vec<(usize, u64)> {
    let p = report::verif_root().join("corpus").join(PROP).join("seeds.txt");
    let mut v = Vec::new();
    if let Ok(s) = std::fs::read_to_string(p) {
        for l in s.lines() {
            let l = l.trim();
            if l.is_empty() || l.starts_with('#') {
                continue;
            }
            let mut it = l.split_whitespace();
            if let (Some(a), Some(b)) = (it.next(), it.next()) {
                if let (Ok(n), Ok(c)) = (a.parse::<usize>(), b.parse::<u64>()) {
                    if n == 512 || n == 1024 {
                        v.push((n, c));
                    }
                }
            }
        }
    }
    v
}

pub struct Ctx {
    pub pins: Vec<(usize, [u8; 32])>,
    pub n512: u64,
    pub n1024: u64,
}

pub fn context(tier: Tier, _seed: u64) -> Result<Ctx, String> {
    let (n512, n1024) = match tier {
        Tier::Quick => (640u64, 112u64),
        Tier::Thorough => (24000u64, 4000u64),
    };
    Ok(Ctx { pins: pinned_seeds(), n512, n1024 })
}

/// the pinned counter seeds plus the key seeds selected with the reference model of key generation's
/// candidate stream (corpus/C01/selected-seeds.txt): (variant, seed)
pub fn pinned_seeds() -> Vec<(usize, [u8; 32])> {
    let mut v: Vec<(usize, [u8; 32])> = pinned().into_iter().map(|(n, c)| (n, counter_seed(c))).collect();
    v.extend(crate::props::c01::selected_seeds_corpus().into_iter().map(|(n, s, _)| (n, s)));
    v
}

fn dispatch(ctx: &Ctx, seed: u64, run: u64) -> RunOutcome {
    let npin = ctx.pins.len() as u64;
    let mut rng = Prng::new(report::run_seed(seed, PROP, run));
    let plan = if run < npin {
        let (n, ks) = ctx.pins[run as usize];
        Plan::draw(&mut rng, n, ks)
    } else {
        // fresh seeds; the expensive 1024 life-cycles are scheduled first
        let k = run - npin;
        let n = if k < ctx.n1024 { 1024 } else { 512 };
        let ks = rng.seed32();
        Plan::draw(&mut rng, n, ks)
    };
    let mut o = run_plan(&plan, run, true);
    o.stats.inc(&format!("variant.{}", plan.n));
    if run < npin {
        o.stats.inc("pinned_seeds");
    }
    if run == npin || run == npin + ctx.n1024 {
        o.stats.sample(plan.to_json());
    }
    o
}

pub fn runner(tier: Tier, seed: u64) -> Option<(u64, Box<dyn Fn(u64) -> RunOutcome + Sync>)> {
    let ctx = context(tier, seed).ok()?;
    let n = ctx.pins.len() as u64 + ctx.n512 + ctx.n1024;
    Some((n, Box::new(move |run| dispatch(&ctx, seed, run))))
}

pub fn rerun(tier: Tier, seed: u64, run: u64) -> Option<RunOutcome> {
    let ctx = context(tier, seed).ok()?;
    Some(dispatch(&ctx, seed, run))
}

pub fn check(tier: Tier, seed: u64) -> i32 {
    let mut rep = Report::new(PROP, tier, seed);
    let w = report::workers();
    let ctx = context(tier, seed).unwrap();
    let total = ctx.pins.len() as u64 + ctx.n512 + ctx.n1024;
    let out = report::parallel_runs(total, w, |run| dispatch(&ctx, seed, run));
    rep.absorb(out);
    // deep batch: concurrent serialisation round trips under function-entry pre-emption
    match crate::props::run_deep_batch(PROP, tier, seed) {
        Ok(Some(o)) => rep.absorb(o),
        Ok(None) => {
            rep.stats.notes.insert("NOTE: no instrumented (deep) build available; the concurrent round-trip batch was skipped".into());
        }
        Err(e) => {
            eprintln!("HARNESS-ERROR: {}", e);
            return 2;
        }
    }
    rep.rule = "a case is one signer-node life-cycle for one key seed (a quarter of them with a second, Falcon-512 signer node living in the same process and restarting / signing in between): keygen, publish pk bytes, persist sk bytes, then a seeded sequence of sign operations (some with buggify-forced retries) and 1-3 crashes; after a crash the node restarts from the bytes on the simulated disk only, and the verifier keeps the public-key bytes published before the first crash; a deep batch (instrumented build) lets 2-6 caller threads serialise and deserialise keys and signatures of 11 (22) keys of both variants concurrently under function-entry pre-emption, every result compared with the same call alone; all life-cycles are non-trivial (each restarts at least once and signs after the last restart); distinct = distinct (variant, key seed)".into();
    rep.assumptions = vec![
        "disk and channel are fault-free in this configuration (a damaged store promises nothing; see C03/C06)".into(),
        "pinned key seeds in corpus/C05/seeds.txt are seeds that reached an unrepresentable coefficient during exploration of the pinned commit".into(),
        "sign is stopped by the harness after ~60x its usual number of entropy draws (bounded liveness)".into(),
    ];
    rep.components = json!({
        "real": ["keygen", "SecretKey/PublicKey/Signature to_bytes+from_bytes", "sign", "verify", "PartialEq of keys and signatures"],
        "stub": ["disk and channel (in-memory byte strings)", "crash/restart (drop of all in-memory state)", "ambient entropy of sign (simulator stream, hook H1)"],
        "model": [],
    });
    rep.finish(report::confirm_in_fresh_process)
}
