//! C05 — keys and signatures survive serialisation. A signer node goes through
//! keygen -> publish pk bytes -> persist sk bytes -> sign* -> CRASH -> restart
//! from the bytes on the simulated disk -> sign* ...; only serialised state
//! survives a crash. Verifier nodes hold only the bytes published before the
//! first crash. Disk and channel are fault-free here.

use crate::guard::Unwind;
use crate::report::{self, Report, RunOutcome, Stats, Tier, Violation};
use crate::rng::{counter_seed, hash_bytes, hex, unhex, Prng};
use crate::variant::{Variant, V1024, V512};
use crate::world::{self, SignPlan};
use serde_json::{json, Value};

pub const PROP: &str = "C05";

#[derive(Clone, Debug)]
pub enum Op {
    Sign { msg: Vec<u8>, stream: u64, norm_rejects: u8, compress_fails: u8 },
    Crash,
    /// a second signer node (Falcon-512, its own key) living in the same process
    /// restarts from its own disk and signs: state kept outside the key objects
    /// would leak between the two nodes
    Neighbour { reload: bool, msg: Vec<u8>, stream: u64 },
}

impl Op {
    fn to_json(&self) -> Value {
        match self {
            Op::Sign { msg, stream, norm_rejects, compress_fails } => {
                json!({"op": "sign", "msg_hex": hex(msg), "stream": stream, "norm_rejects": norm_rejects, "compress_fails": compress_fails})
            }
            Op::Crash => json!({"op": "crash"}),
            Op::Neighbour { reload, msg, stream } => json!({"op": "neighbour", "reload": reload, "msg_hex": hex(msg), "stream": stream}),
        }
    }
    fn from_json(v: &Value) -> Option<Op> {
        match v.get("op")?.as_str()? {
            "crash" => Some(Op::Crash),
            "neighbour" => Some(Op::Neighbour {
                reload: v.get("reload")?.as_bool()?,
                msg: unhex(v.get("msg_hex")?.as_str()?)?,
                stream: v.get("stream")?.as_u64()?,
            }),
            "sign" => Some(Op::Sign {
                msg: unhex(v.get("msg_hex")?.as_str()?)?,
                stream: v.get("stream")?.as_u64()?,
                norm_rejects: v.get("norm_rejects")?.as_u64()? as u8,
                compress_fails: v.get("compress_fails")?.as_u64()? as u8,
            }),
            _ => None,
        }
    }
}

#[derive(Clone, Debug)]
pub struct Plan {
    pub n: usize,
    pub key_seed: [u8; 32],
    /// seed of the neighbour node's key, if the plan has neighbour operations
    pub other_seed: Option<[u8; 32]>,
    pub ops: Vec<Op>,
}

impl Plan {
    pub fn to_json(&self) -> Value {
        json!({"kind": "lifecycle", "n": self.n, "key_seed_hex": hex(&self.key_seed), "other_seed_hex": self.other_seed.map(|s| hex(&s)),
               "ops": self.ops.iter().map(|o| o.to_json()).collect::<Vec<_>>()})
    }
    pub fn from_json(v: &Value) -> Option<Plan> {
        Some(Plan {
            n: v.get("n")?.as_u64()? as usize,
            key_seed: unhex(v.get("key_seed_hex")?.as_str()?)?.try_into().ok()?,
            other_seed: v.get("other_seed_hex").and_then(|x| x.as_str()).and_then(unhex).and_then(|b| b.try_into().ok()),
            ops: v.get("ops")?.as_array()?.iter().map(Op::from_json).collect::<Option<Vec<_>>>()?,
        })
    }
    pub fn draw(rng: &mut Prng, n: usize, key_seed: [u8; 32]) -> Plan {
        let mut ops = Vec::new();
        let crashes = 1 + rng.usize_below(3);
        let total = crashes + 1 + rng.usize_below(5);
        let mut crash_at: Vec<usize> = (0..crashes).map(|_| rng.usize_below(total)).collect();
        crash_at.sort();
        for i in 0..total {
            if crash_at.contains(&i) {
                ops.push(Op::Crash);
            } else {
                let bug = rng.chance(1, 3);
                ops.push(Op::Sign {
                    msg: world::message(rng),
                    stream: rng.next_u64(),
                    norm_rejects: if bug { rng.below(3) as u8 } else { 0 },
                    compress_fails: if bug { rng.below(3) as u8 } else { 0 },
                });
            }
        }
        // at least one signature after the last crash
        ops.push(Op::Sign {
            msg: world::message(rng),
            stream: rng.next_u64(),
            norm_rejects: 0,
            compress_fails: 0,
        });
        // a quarter of the life-cycles share their process with a neighbour node
        let mut other_seed = None;
        if rng.chance(1, 4) {
            other_seed = Some(rng.seed32());
            let k = 1 + rng.usize_below(3);
            for _ in 0..k {
                let at = rng.usize_below(ops.len() + 1);
                ops.insert(at, Op::Neighbour { reload: rng.chance(2, 3), msg: world::message(rng), stream: rng.next_u64() });
            }
        }
        Plan { n, key_seed, other_seed, ops }
    }
}

pub struct Outcome {
    pub class: Option<(String, String)>,
    pub stats: Stats,
    pub log_hash: u64,
}

/// Execute a life-cycle plan; stops at the first violated invariant.
pub fn execute<V: Variant>(plan: &Plan) -> Outcome {
    let mut st = Stats::default();
    let mut log = report::EventLog::new(false);
    let fail = |st: Stats, log: report::EventLog, class: String, detail: String| Outcome {
        class: Some((class, detail)),
        stats: st,
        log_hash: log.hash,
    };
    let n = V::N;
    st.inc("lifecycles");
    // boot: keygen
    let (r, ktr) = world::keygen_sim::<V>(plan.key_seed, None, None);
    st.add("ntru_gen_attempts", ktr.attempts);
    st.steps += ktr.seed_draws;
    let (sk, pk) = match r {
        Ok(x) => x,
        Err(Unwind::NoProgress { what, .. }) => return fail(st, log, format!("keygen{} makes no progress: {}", n, what), String::new()),
        Err(Unwind::Code { location, message }) => return fail(st, log, format!("keygen{} unwinds at {}", n, location), message),
    };
    let disk = V::sk_to_bytes(&sk);
    let published = V::pk_to_bytes(&pk);
    log.event(&format!("keygen {:016x} {:016x}", hash_bytes(0, &disk), hash_bytes(0, &published)));
    if disk.len() != V::SK_LEN {
        return fail(st, log, format!("secret key{} encodes to {} bytes instead of {}", n, disk.len(), V::SK_LEN), String::new());
    }
    if published.len() != V::PK_LEN {
        return fail(st, log, format!("public key{} encodes to {} bytes instead of {}", n, published.len(), V::PK_LEN), String::new());
    }
    // the verifier decodes the published key once
    let vpk = match crate::guard::guarded(|| V::pk_from_bytes(&published)) {
        Ok(Ok(k)) => k,
        Ok(Err(e)) => return fail(st, log, format!("PublicKey{}::from_bytes rejects bytes written by to_bytes ({})", n, e), String::new()),
        Err(u) => return fail(st, log, format!("PublicKey{}::from_bytes {} on bytes written by to_bytes", n, u.signature()), String::new()),
    };
    if vpk != pk {
        return fail(st, log, format!("decoded public key{} differs from the original", n), String::new());
    }
    if V::pk_to_bytes(&vpk) != published {
        return fail(st, log, format!("decoded public key{} re-encodes differently", n), String::new());
    }
    let mut live = sk;
    let mut restarts = 0u32;
    // the neighbour node (generated only if the plan uses it)
    let mut neighbour: Option<(<V512 as Variant>::Sk, <V512 as Variant>::Pk, Vec<u8>)> = None;
    if let (Some(os), true) = (plan.other_seed, plan.ops.iter().any(|o| matches!(o, Op::Neighbour { .. }))) {
        match world::keygen_sim::<V512>(os, None, None).0 {
            Ok((nsk, npk)) => {
                let disk2 = V512::sk_to_bytes(&nsk);
                neighbour = Some((nsk, npk, disk2));
            }
            Err(u) => return fail(st, log, format!("keygen512 {} (neighbour node)", u.signature()), String::new()),
        }
    }
    for (i, op) in plan.ops.iter().enumerate() {
        match op {
            Op::Neighbour { reload, msg, stream } => {
                if let Some((nsk, npk, disk2)) = neighbour.as_mut() {
                    st.inc("neighbour_ops");
                    if *reload {
                        match crate::guard::guarded(|| V512::sk_from_bytes(disk2)) {
                            Ok(Ok(k)) => {
                                if k != *nsk {
                                    return fail(st, log, "reloaded secret key512 differs from the key that was serialised".to_string(), format!("neighbour node, op {}", i));
                                }
                                *nsk = k;
                            }
                            Ok(Err(e)) => return fail(st, log, format!("SecretKey512::from_bytes rejects bytes written by to_bytes ({})", e), format!("neighbour node, op {}", i)),
                            Err(u) => return fail(st, log, format!("SecretKey512::from_bytes {} on bytes written by to_bytes", u.signature()), format!("neighbour node, op {}", i)),
                        }
                    }
                    let (r, tr) = world::sign_sim::<V512>(nsk, msg, &SignPlan::uniform(*stream), None);
                    st.steps += tr.draws;
                    match r {
                        Ok(sig) => match crate::guard::guarded(|| V512::verify(msg, &sig, npk)) {
                            Ok(true) => {}
                            Ok(false) => return fail(st, log, "signature512 made after restart does not verify under the originally published public key".to_string(), format!("neighbour node, op {}", i)),
                            Err(u) => return fail(st, log, format!("verify512 {} on an honest signature", u.signature()), format!("neighbour node, op {}", i)),
                        },
                        Err(Unwind::NoProgress { .. }) => return fail(st, log, "sign512 makes no progress after restart".to_string(), format!("neighbour node, op {}", i)),
                        Err(Unwind::Code { location, message }) => return fail(st, log, format!("sign512 unwinds at {} after restart", location), message),
                    }
                }
            }
            Op::Crash => {
                st.inc("fault.X1_crash");
                // only the disk survives
                let r = crate::guard::guarded(|| V::sk_from_bytes(&disk));
                let reloaded = match r {
                    Ok(Ok(k)) => k,
                    Ok(Err(e)) => {
                        return fail(st, log, format!("SecretKey{}::from_bytes rejects bytes written by to_bytes ({})", n, e), format!("after crash at op {}", i))
                    }
                    Err(u) => {
                        return fail(st, log, format!("SecretKey{}::from_bytes {} on bytes written by to_bytes", n, u.signature()), format!("after crash at op {}", i))
                    }
                };
                restarts += 1;
                log.event(&format!("restart {}", restarts));
                if reloaded != live {
                    return fail(st, log, format!("reloaded secret key{} differs from the key that was serialised", n), format!("after crash at op {}", i));
                }
                if V::sk_to_bytes(&reloaded) != disk {
                    return fail(st, log, format!("reloaded secret key{} re-encodes differently", n), format!("after crash at op {}", i));
                }
                live = reloaded;
            }
            Op::Sign { msg, stream, norm_rejects, compress_fails } => {
                let mut sp = SignPlan::uniform(*stream);
                if *norm_rejects > 0 {
                    sp.fire.push(("sign.norm_reject", (0..*norm_rejects as u64).collect()));
                }
                if *compress_fails > 0 {
                    sp.fire.push(("sign.compress_fail", (0..*compress_fails as u64).collect()));
                }
                let (r, tr) = world::sign_sim::<V>(&live, msg, &sp, None);
                st.steps += tr.draws;
                st.add("fault.B1_forced_norm_reject", *tr.fired.get("sign.norm_reject").unwrap_or(&0));
                st.add("fault.B2_forced_compress_fail", *tr.fired.get("sign.compress_fail").unwrap_or(&0));
                st.add("natural.norm_reject", *tr.probes.get("sign.norm_reject").unwrap_or(&0));
                let when = if restarts > 0 { "after restart" } else { "before any crash" };
                let sig = match r {
                    Ok(s) => s,
                    Err(Unwind::NoProgress { .. }) => {
                        return fail(st, log, format!("sign{} makes no progress {}", n, when), format!("op {} restarts {}", i, restarts))
                    }
                    Err(Unwind::Code { location, message }) => {
                        return fail(st, log, format!("sign{} unwinds at {} {}", n, location, when), message)
                    }
                };
                st.inc(if restarts > 0 { "signatures.after_restart" } else { "signatures.before_crash" });
                let sb = V::sig_to_bytes(&sig);
                log.event(&format!("sign {} {:016x}", i, hash_bytes(0, &sb)));
                if sb.len() != V::SIG_LEN {
                    return fail(st, log, format!("signature{} encodes to {} bytes instead of {}", n, sb.len(), V::SIG_LEN), String::new());
                }
                let back = match crate::guard::guarded(|| V::sig_from_bytes(&sb)) {
                    Ok(Ok(s)) => s,
                    Ok(Err(e)) => return fail(st, log, format!("Signature{}::from_bytes rejects bytes written by to_bytes ({})", n, e), String::new()),
                    Err(u) => return fail(st, log, format!("Signature{}::from_bytes {} on bytes written by to_bytes", n, u.signature()), String::new()),
                };
                if back != sig {
                    return fail(st, log, format!("decoded signature{} differs from the original", n), String::new());
                }
                // the verifier only has what was published before the first crash
                for (label, s) in [("in-memory", &sig), ("decoded", &back)] {
                    match crate::guard::guarded(|| V::verify(msg, s, &vpk)) {
                        Ok(true) => {}
                        Ok(false) => {
                            return fail(
                                st,
                                log,
                                format!("signature{} made {} does not verify under the originally published public key", n, when),
                                format!("op {} ({} signature)", i, label),
                            )
                        }
                        Err(u) => return fail(st, log, format!("verify{} {} on an honest signature", n, u.signature()), String::new()),
                    }
                }
            }
        }
    }
    st.add("restarts", restarts as u64);
    Outcome {
        class: None,
        stats: st,
        log_hash: log.hash,
    }
}

pub fn execute_dyn(plan: &Plan) -> Outcome {
    if plan.n == 512 {
        execute::<V512>(plan)
    } else {
        execute::<V1024>(plan)
    }
}

fn minimise(plan: &Plan, class: &str) -> Plan {
    let same = |p: &Plan| execute_dyn(p).class.map(|c| c.0).as_deref() == Some(class);
    let sign = Op::Sign {
        msg: vec![],
        stream: 1,
        norm_rejects: 0,
        compress_fails: 0,
    };
    for ops in [vec![], vec![Op::Crash], vec![sign.clone()], vec![Op::Crash, sign.clone()]] {
        let p = Plan {
            n: plan.n,
            key_seed: plan.key_seed,
            other_seed: plan.other_seed,
            ops,
        };
        if same(&p) {
            return p;
        }
    }
    // drop operations one at a time
    let mut cur = plan.clone();
    let mut i = 0;
    while i < cur.ops.len() {
        let mut t = cur.clone();
        t.ops.remove(i);
        if same(&t) {
            cur = t;
        } else {
            i += 1;
        }
    }
    cur
}

fn run_plan(plan: &Plan, run: u64, do_minimise: bool) -> RunOutcome {
    let o = execute_dyn(plan);
    let mut out = RunOutcome::default();
    out.stats = o.stats;
    out.stats.inc("runs");
    out.stats.evaluations += 1;
    out.stats.log_hash = o.log_hash;
    out.stats.distinct.insert(hash_bytes(plan.n as u64, &plan.key_seed));
    if let Some((class, detail)) = o.class {
        let m = if do_minimise { minimise(plan, &class) } else { plan.clone() };
        out.violations.push(Violation {
            property: PROP,
            class,
            detail: format!("key seed {} {}", hex(&plan.key_seed), detail),
            replay: m.to_json(),
            run,
        });
    }
    out
}

pub fn replay(doc: &Value) -> Option<String> {
    let plan = Plan::from_json(doc)?;
    execute_dyn(&plan).class.map(|c| c.0)
}

/// pinned seeds: lines "<n> <counter>" (little-endian counter in the first 8 seed bytes)
pub fn pinned() -> Vec<(usize, u64)> {
    let p = report::verif_root().join("corpus").join(PROP).join("seeds.txt");
    let mut v = Vec::new();
    if let Ok(s) = std::fs::read_to_string(p) {
        for l in s.lines() {
            let l = l.trim();
            if l.is_empty() || l.starts_with('#') {
                continue;
            }
            let mut it = l.split_whitespace();
            if let (Some(a), Some(b)) = (it.next(), it.next()) {
                if let (Ok(n), Ok(c)) = (a.parse::<usize>(), b.parse::<u64>()) {
                    if n == 512 || n == 1024 {
                        v.push((n, c));
                    }
                }
            }
        }
    }
    v
}

pub struct Ctx {
    pub pins: Vec<(usize, u64)>,
    pub n512: u64,
    pub n1024: u64,
}

pub fn context(tier: Tier, _seed: u64) -> Result<Ctx, String> {
    let (n512, n1024) = match tier {
        Tier::Quick => (640u64, 112u64),
        Tier::Thorough => (24000u64, 4000u64),
    };
    Ok(Ctx { pins: pinned(), n512, n1024 })
}

fn dispatch(ctx: &Ctx, seed: u64, run: u64) -> RunOutcome {
    let npin = ctx.pins.len() as u64;
    let mut rng = Prng::new(report::run_seed(seed, PROP, run));
    let plan = if run < npin {
        let (n, c) = ctx.pins[run as usize];
        Plan::draw(&mut rng, n, counter_seed(c))
    } else {
        // fresh seeds; the expensive 1024 life-cycles are scheduled first
        let k = run - npin;
        let n = if k < ctx.n1024 { 1024 } else { 512 };
        let ks = rng.seed32();
        Plan::draw(&mut rng, n, ks)
    };
    let mut o = run_plan(&plan, run, true);
    o.stats.inc(&format!("variant.{}", plan.n));
    if run < npin {
        o.stats.inc("pinned_seeds");
    }
    if run == npin || run == npin + ctx.n1024 {
        o.stats.sample(plan.to_json());
    }
    o
}

pub fn runner(tier: Tier, seed: u64) -> Option<(u64, Box<dyn Fn(u64) -> RunOutcome + Sync>)> {
    let ctx = context(tier, seed).ok()?;
    let n = ctx.pins.len() as u64 + ctx.n512 + ctx.n1024;
    Some((n, Box::new(move |run| dispatch(&ctx, seed, run))))
}

pub fn rerun(tier: Tier, seed: u64, run: u64) -> Option<RunOutcome> {
    let ctx = context(tier, seed).ok()?;
    Some(dispatch(&ctx, seed, run))
}

pub fn check(tier: Tier, seed: u64) -> i32 {
    let mut rep = Report::new(PROP, tier, seed);
    let w = report::workers();
    let ctx = context(tier, seed).unwrap();
    let total = ctx.pins.len() as u64 + ctx.n512 + ctx.n1024;
    let out = report::parallel_runs(total, w, |run| dispatch(&ctx, seed, run));
    rep.absorb(out);
    rep.rule = "a case is one signer-node life-cycle for one key seed (a quarter of them with a second, Falcon-512 signer node living in the same process and restarting / signing in between): keygen, publish pk bytes, persist sk bytes, then a seeded sequence of sign operations (some with buggify-forced retries) and 1-3 crashes; after a crash the node restarts from the bytes on the simulated disk only, and the verifier keeps the public-key bytes published before the first crash; all life-cycles are non-trivial (each restarts at least once and signs after the last restart); distinct = distinct (variant, key seed)".into();
    rep.assumptions = vec![
        "disk and channel are fault-free in this configuration (a damaged store promises nothing; see C03/C06)".into(),
        "pinned key seeds in corpus/C05/seeds.txt are seeds that reached an unrepresentable coefficient during exploration of the pinned commit".into(),
        "sign is stopped by the harness after ~60x its usual number of entropy draws (bounded liveness)".into(),
    ];
    rep.components = json!({
        "real": ["keygen", "SecretKey/PublicKey/Signature to_bytes+from_bytes", "sign", "verify", "PartialEq of keys and signatures"],
        "stub": ["disk and channel (in-memory byte strings)", "crash/restart (drop of all in-memory state)", "ambient entropy of sign (simulator stream, hook H1)"],
        "model": [],
    });
    rep.finish(report::confirm_in_fresh_process)
}
