//! C15 — key generation is a deterministic function of the seed, and every seed
//! bit matters. `keygen(seed)` is repeated across baton-scheduled threads
//! (pre-empted at every draw of its seed-expanded stream, hook H2), interleaved
//! with sign calls and other keygens, under different ambient entropy streams,
//! and once per seed in a fresh child process. All occurrences of a seed must be
//! byte-identical. Separately, all 256 single-bit neighbours of sampled base
//! seeds must give pairwise different key pairs.

use crate::entropy::Mode;
use crate::guard::Unwind;
use crate::report::{self, Report, RunOutcome, Stats, Tier, Violation};
use crate::rng::{hash_bytes, hex, unhex, Prng};
use crate::signers::{self, Keys, Op, OpResult, WorldPlan};
use crate::variant::{Variant, V1024, V512};
use crate::world;
use serde_json::{json, Value};
use std::collections::BTreeMap;
use std::sync::Arc;

pub const PROP: &str = "C15";

fn draw_plan(rng: &mut Prng, n: usize, shared_key_seed: [u8; 32], nseeds: usize, occurrences: usize) -> WorldPlan {
    let nthreads = 2 + rng.usize_below(5);
    let seeds: Vec<[u8; 32]> = (0..nseeds).map(|_| rng.seed32()).collect();
    let mut threads: Vec<Vec<Op>> = vec![Vec::new(); nthreads];
    // every seed occurs `occurrences` times; the first two on the same thread or on different threads
    for s in &seeds {
        let same_thread = rng.chance(1, 3);
        let t0 = rng.usize_below(nthreads);
        for k in 0..occurrences {
            let t = if k == 0 || (k == 1 && same_thread) { t0 } else { rng.usize_below(nthreads) };
            threads[t].push(Op::Keygen {
                seed: *s,
                ambient: if rng.chance(2, 3) { Some(rng.next_u64()) } else { None },
            });
        }
    }
    // interleave sign calls (simulated and real entropy) before / between / after keygens
    for t in 0..nthreads {
        let nsig = rng.usize_below(4);
        for _ in 0..nsig {
            let at = rng.usize_below(threads[t].len() + 1);
            threads[t].insert(
                at,
                Op::Sign {
                    key: 0,
                    msg: world::message(rng),
                    stream: rng.next_u64(),
                    mode: if rng.chance(1, 2) { Some(Mode::Uniform) } else { None },
                    norm_rejects: 0,
                    compress_fails: 0,
                },
            );
        }
        // shuffle the order of operations of this thread
        for i in (1..threads[t].len()).rev() {
            let j = rng.usize_below(i + 1);
            threads[t].swap(i, j);
        }
    }
    threads.retain(|t| !t.is_empty());
    WorldPlan {
        n,
        key_seeds: vec![shared_key_seed],
        sched_seed: rng.next_u64(),
        switch_exp: if rng.chance(1, 8) { None } else { Some(*rng.pick(&[7u32, 8, 9, 10, 11, 12, 13, 14, 16])) },
        boundary: rng.below(257) as u32,
        threads,
        align: None,
    }
}

/// `falcon-sim c15-child <n> <seed_hex>` prints "KEY <sk_hex> <pk_hex>"
pub fn child_main(args: &[String]) -> i32 {
    let n: usize = args.get(0).and_then(|s| s.parse().ok()).unwrap_or(512);
    let seed: [u8; 32] = match args.get(1).and_then(|s| unhex(s)).and_then(|v| v.try_into().ok()) {
        Some(s) => s,
        None => return 2,
    };
    let (r, attempts) = if n == 512 {
        let (r, t) = world::keygen_sim::<V512>(seed, None, None);
        (r.map(|(sk, pk)| (V512::sk_to_bytes(&sk), V512::pk_to_bytes(&pk))), t.attempts)
    } else {
        let (r, t) = world::keygen_sim::<V1024>(seed, None, None);
        (r.map(|(sk, pk)| (V1024::sk_to_bytes(&sk), V1024::pk_to_bytes(&pk))), t.attempts)
    };
    println!("ATTEMPTS {}", attempts);
    match r {
        Ok((sk, pk)) => {
            println!("KEY {} {}", hex(&sk), hex(&pk));
            0
        }
        Err(u) => {
            println!("UNWIND {}", u.signature());
            3
        }
    }
}

fn in_child(n: usize, seed: &[u8; 32]) -> Result<(Vec<u8>, Vec<u8>), String> {
    let exe = std::env::current_exe().map_err(|e| e.to_string())?;
    let out = std::process::Command::new(exe)
        .args(["c15-child", &n.to_string(), &hex(seed)])
        .stderr(std::process::Stdio::null())
        .output()
        .map_err(|e| e.to_string())?;
    let text = String::from_utf8_lossy(&out.stdout);
    for l in text.lines() {
        if let Some(rest) = l.strip_prefix("KEY ") {
            let mut it = rest.split_whitespace();
            if let (Some(a), Some(b)) = (it.next(), it.next()) {
                if let (Some(sk), Some(pk)) = (unhex(a), unhex(b)) {
                    return Ok((sk, pk));
                }
            }
        }
        if let Some(u) = l.strip_prefix("UNWIND ") {
            return Err(format!("child: {}", u));
        }
    }
    Err("child produced no key".into())
}

pub struct Verdict {
    pub class: Option<(String, String)>,
    pub stats: Stats,
}

pub fn run_plan<V: Variant>(plan: &WorldPlan, keys: Keys<V>, with_children: bool) -> Verdict {
    let mut st = Stats::default();
    let n = V::N;
    let (res, sched) = signers::execute::<V>(plan, keys);
    if sched.free_running {
        st.inc("inconclusive.schedule_infeasible");
        return Verdict { class: None, stats: st };
    }
    st.steps += sched.steps;
    st.add("sched.switches", sched.switches);
    st.add("sched.lock_handoffs", sched.lock_handoffs);
    if sched.switches > 0 {
        st.interleavings.insert(sched.trace_hash);
    }
    st.overlap_states.extend(sched.overlap_states.iter().cloned());
    let mut class: Option<(String, String)> = None;
    let mut by_seed: BTreeMap<[u8; 32], Vec<(String, Vec<u8>, Vec<u8>)>> = BTreeMap::new();
    let mut log = sched.trace_hash;
    for (t, tr) in res.iter().enumerate() {
        let ops = match tr {
            Ok(o) => o,
            Err(u) => {
                class.get_or_insert((format!("simulated thread died: {}", u.signature()), format!("thread {}", t)));
                continue;
            }
        };
        for (i, r) in ops.iter().enumerate() {
            st.evaluations += 1;
            // signatures made with the real thread_rng (mode E5) are not reproducible
            // by design and stay out of the event log; everything else goes in
            let real_entropy = matches!(&plan.threads[t][i], Op::Sign { mode: None, .. });
            if !real_entropy {
                log = crate::rng::hash_u64(log, r.digest());
            }
            match (&plan.threads[t][i], r) {
                (Op::Keygen { seed, ambient }, OpResult::Key { sk, pk, trace, preempted }) => {
                    st.inc("keygen.calls");
                    st.add("keygen.ntru_gen_attempts", trace.attempts);
                    st.add("keygen.seed_stream_draws", trace.seed_draws);
                    st.add("probe.ambient_draws_inside_keygen", trace.ambient_draws);
                    if ambient.is_some() {
                        st.inc("keygen.with_ambient_stream");
                    }
                    if *preempted > 0 {
                        st.inc("keygen.preempted_mid_call");
                        st.add("fault.S1_preemptions", *preempted);
                        st.distinct.insert(hash_bytes(crate::rng::hash_u64(sched.trace_hash, t as u64), seed));
                    }
                    by_seed.entry(*seed).or_default().push((format!("thread {} op {}", t, i), sk.clone(), pk.clone()));
                }
                (Op::Keygen { seed, .. }, OpResult::Unwound(u)) => {
                    let c = match u {
                        Unwind::NoProgress { .. } => format!("keygen{} makes no progress within its draw bound", n),
                        Unwind::Code { location, .. } => format!("keygen{} unwinds at {}", n, location),
                    };
                    class.get_or_insert((c, format!("seed {} thread {} op {}", hex(seed), t, i)));
                }
                (Op::Sign { .. }, OpResult::Sig { .. }) => st.inc("sign.calls_interleaved"),
                _ => {}
            }
        }
    }
    if with_children {
        for (seed, v) in by_seed.iter_mut() {
            match in_child(n, seed) {
                Ok((sk, pk)) => {
                    st.inc("fault.P1_fresh_process");
                    v.push(("fresh process".into(), sk, pk));
                }
                Err(e) => {
                    class.get_or_insert((format!("keygen{} failed in a fresh process", n), format!("seed {}: {}", hex(seed), e)));
                }
            }
        }
    }
    for (seed, v) in by_seed.iter() {
        st.inc("seeds");
        for w in v.iter().skip(1) {
            if w.1 != v[0].1 || w.2 != v[0].2 {
                class.get_or_insert((
                    format!("keygen{} returned different key pairs for the same seed", n),
                    format!("seed {}: {} vs {} (sk {:016x}/{:016x} pk {:016x}/{:016x})", hex(seed), v[0].0, w.0, hash_bytes(0, &v[0].1), hash_bytes(0, &w.1), hash_bytes(0, &v[0].2), hash_bytes(0, &w.2)),
                ));
            }
        }
    }
    st.log_hash = log;
    Verdict { class, stats: st }
}

fn minimise<V: Variant>(plan: &WorldPlan, keys: Keys<V>, class: &str) -> WorldPlan {
    // every trial in its own forked process (see c01::minimise)
    let same = |p: &WorldPlan| {
        if p.threads.is_empty() {
            return false;
        }
        let r = crate::isolate::isolated(
            || run_plan::<V>(p, keys.clone(), true).class.map(|c| c.0).unwrap_or_default().into_bytes(),
            crate::isolate::run_timeout_s(),
        );
        matches!(r, Ok(b) if b == class.as_bytes())
    };
    let mut cur = plan.clone();
    // without sign calls
    let mut p = cur.clone();
    for t in p.threads.iter_mut() {
        t.retain(|o| matches!(o, Op::Keygen { .. }));
    }
    p.threads.retain(|t| !t.is_empty());
    if same(&p) {
        cur = p;
    }
    // one seed at a time
    let seeds: Vec<[u8; 32]> = {
        let mut s: Vec<[u8; 32]> = cur.threads.iter().flatten().filter_map(|o| if let Op::Keygen { seed, .. } = o { Some(*seed) } else { None }).collect();
        s.sort();
        s.dedup();
        s
    };
    if seeds.len() > 1 {
        for s in &seeds {
            let mut p = cur.clone();
            for t in p.threads.iter_mut() {
                t.retain(|o| match o {
                    Op::Keygen { seed, .. } => seed == s,
                    _ => true,
                });
            }
            p.threads.retain(|t| !t.is_empty());
            if same(&p) {
                cur = p;
                break;
            }
        }
    }
    let p = cur.sequential();
    if cur.switch_exp.is_some() && same(&p) {
        cur = p;
    }
    cur
}

fn one_run<V: Variant>(seed: u64, run: u64, keys: Keys<V>, shared_seed: [u8; 32], nseeds: usize, occ: usize) -> RunOutcome {
    let mut rng = Prng::new(report::run_seed(seed, PROP, run));
    let plan = draw_plan(&mut rng, V::N, shared_seed, nseeds, occ);
    let v = run_plan::<V>(&plan, keys.clone(), true);
    let mut out = RunOutcome::default();
    out.stats = v.stats;
    out.stats.inc("runs");
    out.stats.inc(&format!("variant.{}", V::N));
    if run == 0 {
        let mut j = plan.to_json();
        if let Some(t) = j.get_mut("threads").and_then(|t| t.as_array_mut()) {
            for th in t.iter_mut() {
                if let Some(o) = th.as_array_mut() {
                    o.truncate(3);
                }
            }
        }
        out.stats.sample(j);
    }
    if let Some((class, detail)) = v.class {
        let m = minimise::<V>(&plan, keys, &class);
        out.violations.push(Violation { property: PROP, class, detail, replay: m.to_json(), run });
    }
    out
}

// ---------------------------------------------------------------------------
// deep batch (instrumented build): a keygen and concurrent sign calls under
// function-entry pre-emption - state shared between the samplers of different
// threads (a lock-free memo, a static scratch value) is now within reach
// ---------------------------------------------------------------------------

fn deep_run(seed: u64, run: u64, shared: &world::KeyEntry<V512>) -> RunOutcome {
    let mut rng = Prng::new(report::run_seed(seed, "C15deep", run));
    let mut out = RunOutcome::default();
    let kp = match shared.load() {
        Ok(kp) => kp,
        Err(_) => {
            out.stats.inc("harness.pool_key_not_loadable");
            return out;
        }
    };
    let keys: Keys<V512> = Arc::new(vec![kp]);
    let kseed = rng.seed32();
    let nsign_threads = 1 + rng.usize_below(2);
    let mut threads: Vec<Vec<Op>> = vec![vec![Op::Keygen { seed: kseed, ambient: None }]];
    if rng.chance(1, 2) {
        threads.push(vec![Op::Keygen { seed: kseed, ambient: None }]);
    }
    for _ in 0..nsign_threads {
        threads.push((0..20 + rng.usize_below(30)).map(|_| Op::Sign { key: 0, msg: world::message(&mut rng), stream: rng.next_u64(), mode: Some(Mode::Uniform), norm_rejects: 0, compress_fails: 0 }).collect());
    }
    // counted yield points (measured): ~6*10^5 per keygen, ~8000 per sign
    let yields: u64 = threads.iter().flatten().map(|o| if matches!(o, Op::Keygen { .. }) { 600_000 } else { 8_000 }).sum();
    let budget = *rng.pick(&[30u64, 100, 300, 1000]);
    let mut k = 0u32;
    while k < 30 && (yields >> k) > budget {
        k += 1;
    }
    let align = if rng.chance(1, 3) { Some((*rng.pick(&[16u32, 64, 256]), *rng.pick(&[1u32, 2, 3]))) } else { None };
    let plan = WorldPlan { n: 512, key_seeds: vec![shared.seed], sched_seed: rng.next_u64(), switch_exp: Some(k), boundary: 64, threads, align };
    let v = run_plan::<V512>(&plan, keys, true);
    out.stats = v.stats;
    out.stats.inc("runs");
    out.stats.inc("runs.deep");
    out.stats.add("deep.yield_points", out.stats.steps);
    if let Some((class, detail)) = v.class {
        let mut doc = plan.to_json();
        doc.as_object_mut().unwrap().insert("deep".into(), json!(true));
        out.violations.push(Violation { property: PROP, class, detail: format!("deep run {}: {}", run, detail), replay: doc, run: (1 << 41) + 100 + run });
    }
    out
}

const CROSS_BUILD_TAG: u64 = 1 << 55;

/// seeds whose key pairs are compared between the main build and the instrumented build
fn cross_build_seeds(seed: u64) -> Vec<(usize, [u8; 32])> {
    let mut rng = Prng::new(report::run_seed(seed, "C15crossbuild", 0));
    vec![(512, rng.seed32()), (512, rng.seed32()), (1024, rng.seed32())]
}

/// entry of the deep binary: `falcon-sim deepruns C15 <tier> <seed> <outfile>`
pub fn deepruns_main(tier: Tier, seed: u64, outfile: &str) -> i32 {
    let w = report::workers();
    let runs = if tier == Tier::Quick { 24u64 } else { 400 };
    let pool: world::KeyPool<V512> = world::KeyPool::build(report::run_seed(seed, "c15-deep-pool", 0), 1, 0, w);
    if pool.keys.is_empty() {
        eprintln!("HARNESS-ERROR: deep key pool could not be built");
        return 2;
    }
    let mut out = report::parallel_runs(runs, w, |run| deep_run(seed, run, &pool.keys[0]));
    for (run, what) in report::take_dead_runs(&mut out.stats) {
        out.violations.push(Violation {
            property: PROP,
            class: format!("run's process died: {}", what),
            detail: format!("deep run {}", run),
            replay: json!({"kind": "rerun"}),
            run: (1 << 41) + 100 + run,
        });
    }
    // this build differs from the main one in optimisation level and in debug assertions (on in the main build, off here): the key
    // pairs of a few fixed seeds are handed to the main build, which compares them with its own
    for (i, (n, sd)) in cross_build_seeds(seed).iter().enumerate() {
        let d = crate::isolate::isolated(|| if *n == 512 { key_hashes::<V512>(*sd) } else { key_hashes::<V1024>(*sd) }, crate::isolate::run_timeout_s());
        if let Ok(d) = d {
            out.stats.blobs.push((CROSS_BUILD_TAG | i as u64, d));
        }
    }
    match std::fs::write(outfile, out.to_bytes()) {
        Ok(_) => 0,
        Err(_) => 2,
    }
}

/// all 256 single-bit neighbours of a base seed, each keygen in its own process
fn neighbourhood<V: Variant>(base: [u8; 32], w: usize) -> RunOutcome {
    let items: Vec<u64> = (0..257).collect();
    let job = |i: u64| -> Vec<u8> {
        let s = seed_with_bit(&base, i as i64 - 1);
        let (r, tr) = world::keygen_sim::<V>(s, None, None);
        match r {
            Ok((sk, pk)) => {
                let mut v = vec![0u8];
                v.extend_from_slice(&hash_bytes(0, &V::sk_to_bytes(&sk)).to_le_bytes());
                v.extend_from_slice(&hash_bytes(0, &V::pk_to_bytes(&pk)).to_le_bytes());
                v.extend_from_slice(&tr.attempts.to_le_bytes());
                v
            }
            Err(u) => {
                let mut v = vec![1u8];
                v.extend_from_slice(u.signature().as_bytes());
                v
            }
        }
    };
    let raw = crate::isolate::fork_map(&items, w, None, &job);
    let mut results: BTreeMap<usize, Result<(Vec<u8>, Vec<u8>), String>> = BTreeMap::new();
    let mut attempts: Vec<(u64, u64)> = Vec::new();
    for i in 0..257u64 {
        let r = match raw.get(&i) {
            Some(Ok(b)) if b.len() == 25 && b[0] == 0 => {
                attempts.push((u64::from_le_bytes(b[17..25].try_into().unwrap()), i));
                Ok((b[1..9].to_vec(), b[9..17].to_vec()))
            }
            Some(Ok(b)) => Err(String::from_utf8_lossy(&b[1.min(b.len())..]).to_string()),
            Some(Err(f)) => Err(f.describe()),
            None => Err("no result".into()),
        };
        results.insert(i as usize, r);
    }
    let mut out = RunOutcome::default();
    let mut st = Stats::default();
    st.inc("neighbourhoods");
    // adaptive repetition: the seeds whose key generation took the most attempts (its rarest
    // internal branch) are generated twice more, each time in a fresh process
    attempts.sort_by(|a, b| b.cmp(a));
    let hardest: Vec<u64> = attempts.iter().take(6).map(|x| x.1).collect();
    let items2: Vec<u64> = hardest.iter().flat_map(|&i| [i, i + 1000]).collect();
    let job2 = |j: u64| job(j % 1000);
    let again = crate::isolate::fork_map(&items2, w, None, &job2);
    for &i in &hardest {
        st.inc("hard_seed_repetitions");
        st.add("hard_seed_max_attempts", 0);
        let first = raw.get(&i).and_then(|r| r.as_ref().ok()).map(|b| b[1..17].to_vec());
        for k in [i, i + 1000] {
            let other = again.get(&k).and_then(|r| r.as_ref().ok()).filter(|b| b.len() == 25 && b[0] == 0).map(|b| b[1..17].to_vec());
            if first.is_some() && other.is_some() && first != other && !out.violations.iter().any(|v: &Violation| v.class.contains("different key pairs")) {
                let sd = seed_with_bit(&base, i as i64 - 1);
                out.violations.push(Violation {
                    property: PROP,
                    class: format!("keygen{} returned different key pairs for the same seed", V::N),
                    detail: format!("seed {} generated three times in fresh processes (it needs {} ntru_gen attempts)", hex(&sd), attempts.iter().find(|a| a.1 == i).map(|a| a.0).unwrap_or(0)),
                    replay: json!({"kind": "repeat", "n": V::N, "seed_hex": hex(&sd), "times": 4}),
                    run: 1 << 41,
                });
            }
        }
    }
    if let Some(m) = attempts.first() {
        st.add("hard_seed_attempts_of_the_hardest", m.0);
    }
    let mut seen: BTreeMap<u64, usize> = BTreeMap::new();
    for (i, r) in results.iter() {
        st.evaluations += 1;
        st.inc("neighbour_keygens");
        match r {
            Err(u) => out.violations.push(Violation {
                property: PROP,
                class: format!("keygen{} fails on a seed: {}", V::N, u),
                detail: format!("base {} bit {}", hex(&base), *i as i64 - 1),
                replay: json!({"kind": "neighbours", "n": V::N, "base_hex": hex(&base), "bits": [*i as i64 - 1]}),
                run: 1 << 41,
            }),
            Ok((sk, pk)) => {
                let h = hash_bytes(hash_bytes(0, sk), pk);
                st.distinct.insert(h);
                let clash = seen.insert(h, *i);
                if let Some(j) = clash {
                    if !out.violations.iter().any(|v| v.class.starts_with("two seeds that differ")) {
                        out.violations.push(Violation {
                            property: PROP,
                            class: format!("two seeds that differ in one or two bits give the same key pair (variant {})", V::N),
                            detail: format!("base {} bit indices {} and {} (-1 = base seed)", hex(&base), j as i64 - 1, *i as i64 - 1),
                            replay: json!({"kind": "neighbours", "n": V::N, "base_hex": hex(&base), "bits": [j as i64 - 1, *i as i64 - 1]}),
                            run: 1 << 41,
                        });
                    }
                }
            }
        }
    }
    st.sample(json!({"neighbourhood_base_seed": hex(&base), "variant": V::N, "distinct_key_pairs": seen.len()}));
    out.stats = st;
    out
}

/// keygen of `seed` in a fresh process: (sk bytes, pk bytes)
fn fresh(n: usize, seed: &[u8; 32]) -> Result<(Vec<u8>, Vec<u8>), String> {
    in_child(n, seed)
}

fn gen_here(n: usize, seed: [u8; 32]) -> Result<(Vec<u8>, Vec<u8>), String> {
    // clock faults (T2): every look at a clock during this key generation may find that time has jumped;
    // the reference generation in a fresh process runs on an undisturbed clock
    let _clock = crate::simclock::enable(hash_bytes(0x7c10c, &seed));
    if n == 512 {
        world::keygen_sim::<V512>(seed, None, None).0.map(|(sk, pk)| (V512::sk_to_bytes(&sk), V512::pk_to_bytes(&pk))).map_err(|u| u.signature())
    } else {
        world::keygen_sim::<V1024>(seed, None, None).0.map(|(sk, pk)| (V1024::sk_to_bytes(&sk), V1024::pk_to_bytes(&pk))).map_err(|u| u.signature())
    }
}

/// A sequence of keygens of both variants on ONE thread of one process, each compared with the
/// same seed generated in a fresh process: state kept per thread or per process and not keyed by
/// the variant would make the result depend on what was generated before.
fn mixed_sequence(seq: &[(usize, [u8; 32])]) -> (Option<(String, String)>, Stats) {
    let mut st = Stats::default();
    let mut here = Vec::new();
    for (n, s) in seq {
        st.evaluations += 1;
        st.inc("mixed.keygen_calls");
        match gen_here(*n, *s) {
            Ok(k) => here.push(k),
            Err(e) => return (Some((format!("keygen{} fails on a seed: {}", n, e), format!("seed {}", hex(s)))), st),
        }
    }
    for (i, (n, s)) in seq.iter().enumerate() {
        match fresh(*n, s) {
            Ok(k) => {
                st.inc("fault.P1_fresh_process");
                if k != here[i] {
                    return (
                        Some((
                            format!("keygen{} returned different key pairs for the same seed", n),
                            format!("seed {}: call {} of a mixed-variant sequence on one thread vs a fresh process", hex(s), i),
                        )),
                        st,
                    );
                }
            }
            Err(e) => return (Some((format!("keygen{} failed in a fresh process", n), e)), st),
        }
        st.distinct.insert(hash_bytes(*n as u64, s));
    }
    (None, st)
}

fn seq_json(seq: &[(usize, [u8; 32])]) -> Value {
    json!({"kind": "mixed-keygen", "seq": seq.iter().map(|(n, s)| json!([n, hex(s)])).collect::<Vec<_>>()})
}

fn mixed_run(seed: u64, run: u64, k: u64) -> RunOutcome {
    let mut rng = Prng::new(report::run_seed(seed, "C15mixed", run));
    // starts with either variant; 512 keygens are cheap, so there are more of them
    let mut seq: Vec<(usize, [u8; 32])> = Vec::new();
    let rare = crate::props::c05::pinned();
    if k % 4 == 2 && rare.len() >= 4 {
        // seeds whose key generation takes a rare branch (a solved candidate discarded because F or G
        // does not fit eight bits; pinned in corpus/C05/seeds.txt), several of them in one process:
        // whatever the first occurrence of a rare event leaves behind must not change the second
        let n = if k % 8 == 6 { 1024 } else { 512 };
        let of_n: Vec<u64> = rare.iter().filter(|(m, _)| *m == n).map(|(_, c)| *c).collect();
        for i in 0..4.min(of_n.len()) {
            let c = of_n[(k as usize / 4 + i * 3) % of_n.len()];
            seq.push((n, crate::rng::counter_seed(c)));
        }
        if seq.len() < 2 {
            seq.clear();
        }
    }
    if !seq.is_empty() {
        // (rare-branch sequence chosen above)
    } else if k % 4 == 1 {
        // related seeds on one thread: a base seed, single-bit neighbours in different bytes, seeds that
        // share the base's first or last bytes, and the base again - anything remembered under a part of
        // a seed (a truncated key, a prefix, a hash of some bytes) is then found by a different seed
        let n = if k % 8 == 5 { 1024 } else { 512 };
        let base = rng.seed32();
        seq.push((n, base));
        for bit in [100i64, 64, 255, 7] {
            seq.push((n, seed_with_bit(&base, bit)));
        }
        let mut tail = base;
        for b in tail[24..].iter_mut() {
            *b = rng.byte();
        }
        seq.push((n, tail));
        let mut head = base;
        for b in head[..8].iter_mut() {
            *b = rng.byte();
        }
        seq.push((n, head));
        seq.push((n, base));
    } else {
        let first1024 = rng.chance(2, 3);
        if first1024 {
            seq.push((1024, rng.seed32()));
        }
        for _ in 0..8 {
            seq.push((512, rng.seed32()));
        }
        if !first1024 {
            seq.push((1024, rng.seed32()));
            seq.push((512, rng.seed32()));
        }
    }
    let (class, st) = mixed_sequence(&seq);
    let mut out = RunOutcome::default();
    out.stats = st;
    out.stats.inc("runs");
    out.stats.inc("runs.mixed_variant");
    if let Some((class, detail)) = class {
        // minimise: a 1024 keygen followed by one 512 keygen, if that suffices
        let mut best = seq.clone();
        let mut trials = 0;
        'search: for i in 0..seq.len() {
            for j in 0..seq.len() {
                if i != j && (seq[i].0 != seq[j].0 || ((k % 4 == 1 || k % 4 == 2) && i < j)) {
                    let cand = vec![seq[i], seq[j]];
                    let r = crate::isolate::isolated(|| mixed_sequence(&cand).0.map(|c| c.0).unwrap_or_default().into_bytes(), crate::isolate::run_timeout_s());
                    trials += 1;
                    if matches!(&r, Ok(b) if b == class.as_bytes()) {
                        best = cand;
                        break 'search;
                    }
                    if trials >= 16 {
                        break 'search;
                    }
                }
            }
        }
        out.violations.push(Violation { property: PROP, class, detail, replay: seq_json(&best), run });
    }
    out
}

// ---------------------------------------------------------------------------
// long single-thread history through the other public route
// ---------------------------------------------------------------------------
//
// `keygen(seed)` is `SecretKey::generate_from_seed(seed)` + `PublicKey::from_secret_key`. A program
// may call those two itself, and may do so many times on one thread. State that `keygen` sets up or
// refreshes on entry, and that the inner route only consumes, runs out after a long enough history.
// One thread generates `count` key pairs through the inner route (signing now and then in between);
// each pair is compared with `keygen(seed)` in a process of its own.

fn history_seeds(seed: u64, n: usize, count: usize) -> Vec<[u8; 32]> {
    let mut rng = Prng::new(report::run_seed(seed, "C15long", n as u64));
    (0..count).map(|_| rng.seed32()).collect()
}

/// the history on this thread: hash(sk) || hash(pk) per seed (16 bytes each); stops at an unwind
fn history_here<V: Variant>(seeds: &[[u8; 32]]) -> Vec<u8> {
    let mut out = Vec::with_capacity(16 * seeds.len());
    for (i, s) in seeds.iter().enumerate() {
        // every other generation of the history under clock faults (T2)
        let _clock = if i % 2 == 1 { Some(crate::simclock::enable(hash_bytes(0x7c10c, s))) } else { None };
        match world::keygen_sim_route::<V>(*s, None, None, 1).0 {
            Ok((sk, pk)) => {
                out.extend_from_slice(&hash_bytes(0, &V::sk_to_bytes(&sk)).to_le_bytes());
                out.extend_from_slice(&hash_bytes(0, &V::pk_to_bytes(&pk)).to_le_bytes());
                if i % 8 == 3 {
                    let _ = world::sign_sim::<V>(&sk, b"between two key generations", &world::SignPlan::uniform(i as u64), None);
                }
            }
            Err(_) => break,
        }
    }
    out
}

fn key_hashes<V: Variant>(seed: [u8; 32]) -> Vec<u8> {
    match world::keygen_sim::<V>(seed, None, None).0 {
        Ok((sk, pk)) => {
            let mut v = hash_bytes(0, &V::sk_to_bytes(&sk)).to_le_bytes().to_vec();
            v.extend_from_slice(&hash_bytes(0, &V::pk_to_bytes(&pk)).to_le_bytes());
            v
        }
        Err(_) => Vec::new(),
    }
}

/// both histories (one process each) and all reference key generations in one parallel batch
fn long_histories(seed: u64, c512: usize, c1024: usize, w: usize) -> RunOutcome {
    let s512 = history_seeds(seed, 512, c512);
    let s1024 = history_seeds(seed, 1024, c1024);
    const B: u64 = 1 << 32;
    let mut items: Vec<u64> = vec![B, 0]; // the two histories first (the longer one first)
    items.extend((1..=c1024 as u64).map(|i| B | i));
    items.extend(1..=c512 as u64);
    let job = |id: u64| -> Vec<u8> {
        let i = (id & (B - 1)) as usize;
        match (id >= B, i) {
            (false, 0) => history_here::<V512>(&s512),
            (true, 0) => history_here::<V1024>(&s1024),
            (false, _) => key_hashes::<V512>(s512[i - 1]),
            (true, _) => key_hashes::<V1024>(s1024[i - 1]),
        }
    };
    let raw = crate::isolate::fork_map(&items, w, None, &job);
    let mut out = RunOutcome::default();
    for (n, seeds, base) in [(512usize, &s512, 0u64), (1024usize, &s1024, B)] {
        out.stats.inc("runs");
        out.stats.inc("runs.long_history");
        let count = seeds.len();
        let hist = match raw.get(&base) {
            Some(Ok(h)) => h.clone(),
            _ => {
                out.violations.push(Violation {
                    property: PROP,
                    class: format!("run's process died: long keygen{} history", n),
                    detail: String::new(),
                    replay: json!({"kind": "long-history", "n": n, "seeds": seeds.iter().map(|s| hex(s)).collect::<Vec<_>>()}),
                    run: (1 << 41) + 20 + (n as u64 >> 10),
                });
                continue;
            }
        };
        for i in 0..count {
            out.stats.evaluations += 1;
            out.stats.inc("long_history.keygen_calls");
            let here = hist.get(16 * i..16 * i + 16);
            let there = raw.get(&(base | (i as u64 + 1))).and_then(|r| r.as_ref().ok()).filter(|b| b.len() == 16);
            out.stats.inc("fault.P1_fresh_process");
            let bad = match (here, there) {
                (Some(a), Some(b)) => a != &b[..],
                (None, _) => true,  // the history stopped early (an unwind in key generation)
                (_, None) => false, // the reference process failed: liveness of keygen(seed) is judged elsewhere
            };
            if bad {
                out.violations.push(Violation {
                    property: PROP,
                    class: format!("keygen{} returned different key pairs for the same seed", n),
                    detail: format!("seed {}: call {} of a long single-thread history through SecretKey::generate_from_seed + PublicKey::from_secret_key vs keygen(seed) in a fresh process", hex(&seeds[i]), i),
                    replay: json!({"kind": "long-history", "n": n, "seeds": seeds[..=i].iter().map(|s| hex(s)).collect::<Vec<_>>()}),
                    run: (1 << 41) + 20 + (n as u64 >> 10),
                });
                break;
            }
            out.stats.distinct.insert(hash_bytes(n as u64 + 7, &seeds[i]));
        }
    }
    out
}

fn replay_long_history(doc: &Value) -> Option<String> {
    let n = doc.get("n")?.as_u64()? as usize;
    let seeds: Vec<[u8; 32]> = doc.get("seeds")?.as_array()?.iter().map(|s| unhex(s.as_str()?)?.try_into().ok()).collect::<Option<Vec<_>>>()?;
    let last = *seeds.last()?;
    let s2 = seeds.clone();
    let hist = crate::isolate::isolated(move || if n == 512 { history_here::<V512>(&s2) } else { history_here::<V1024>(&s2) }, crate::isolate::run_timeout_s());
    let hist = match hist {
        Ok(h) => h,
        Err(_) => return Some(format!("run's process died: long keygen{} history", n)),
    };
    let (sk, pk) = fresh(n, &last).ok()?;
    let mut want = hash_bytes(0, &sk).to_le_bytes().to_vec();
    want.extend_from_slice(&hash_bytes(0, &pk).to_le_bytes());
    let i = seeds.len() - 1;
    if hist.get(16 * i..16 * i + 16) != Some(&want[..]) {
        Some(format!("keygen{} returned different key pairs for the same seed", n))
    } else {
        None
    }
}

/// `PublicKey::from_secret_key` is the second half of `keygen`: the public key is a function of the
/// secret key alone. One secret key per variant, the derivation repeated many times over several
/// processes; every result must be the same bytes.
fn derivation_repeats(seed: u64, per_proc: usize, w: usize) -> RunOutcome {
    let mut rng = Prng::new(report::run_seed(seed, "C15derive", 0));
    let (s512, s1024) = (rng.seed32(), rng.seed32());
    let items: Vec<u64> = (0..16).collect();
    let job = |i: u64| -> Vec<u8> {
        fn go<V: Variant>(sd: [u8; 32], reps: usize) -> Vec<u8> {
            let (sk, pk) = match world::keygen_sim::<V>(sd, None, None).0 {
                Ok(k) => k,
                Err(_) => return vec![2],
            };
            let want = V::pk_to_bytes(&pk);
            for r in 0..reps {
                let again = crate::guard::guarded(|| V::pk_to_bytes(&V::pk_from_sk(&sk)));
                match again {
                    Ok(b) if b == want => {}
                    _ => {
                        let mut v = vec![1];
                        v.extend_from_slice(&(r as u64).to_le_bytes());
                        return v;
                    }
                }
            }
            vec![0]
        }
        if i % 4 == 3 {
            go::<V1024>(s1024, per_proc / 4)
        } else {
            go::<V512>(s512, per_proc)
        }
    };
    let raw = crate::isolate::fork_map(&items, w, None, &job);
    let mut out = RunOutcome::default();
    out.stats.inc("runs");
    out.stats.inc("runs.public_key_derivation_repeats");
    for i in &items {
        let n = if i % 4 == 3 { 1024 } else { 512 };
        let reps = if n == 1024 { per_proc / 4 } else { per_proc };
        match raw.get(i) {
            Some(Ok(b)) if b.first() == Some(&0) => {
                out.stats.evaluations += reps as u64;
                out.stats.add("public_key_derivations", reps as u64);
            }
            Some(Ok(b)) if b.first() == Some(&1) => {
                let sd = if n == 512 { s512 } else { s1024 };
                out.violations.push(Violation {
                    property: PROP,
                    class: format!("keygen{} returned different key pairs for the same seed", n),
                    detail: format!("seed {}: PublicKey::from_secret_key on the secret key of that seed gave different public keys in repetitions of the derivation (process {}, repetition {})", hex(&sd), i, u64::from_le_bytes(b[1..9].try_into().unwrap_or([0; 8]))),
                    replay: json!({"kind": "derive", "probabilistic": true, "n": n, "seed_hex": hex(&sd), "reps": reps}),
                    run: (1 << 41) + 40 + i,
                });
                break;
            }
            _ => {}
        }
    }
    out
}

/// pinned seeds whose key generation takes a rare branch (many attempts, a range rejection):
/// "<n> <counter>" lines in corpus/C15/hard-seeds.txt; each is generated three times in fresh processes
pub fn pinned_hard() -> Vec<(usize, u64)> {
    let p = report::verif_root().join("corpus").join(PROP).join("hard-seeds.txt");
    let mut v = Vec::new();
    if let Ok(s) = std::fs::read_to_string(p) {
        for l in s.lines() {
            let l = l.trim();
            if l.is_empty() || l.starts_with('#') {
                continue;
            }
            let mut it = l.split_whitespace();
            if let (Some(a), Some(b)) = (it.next(), it.next()) {
                if let (Ok(n), Ok(c)) = (a.parse::<usize>(), b.parse::<u64>()) {
                    if n == 512 || n == 1024 {
                        v.push((n, c));
                    }
                }
            }
        }
    }
    v
}

fn repeat_seed(n: usize, seed: [u8; 32], times: usize) -> Option<String> {
    let mut first: Option<(Vec<u8>, Vec<u8>)> = None;
    for _ in 0..times {
        match fresh(n, &seed) {
            Ok(k) => match &first {
                None => first = Some(k),
                Some(f) => {
                    if *f != k {
                        return Some(format!("keygen{} returned different key pairs for the same seed", n));
                    }
                }
            },
            Err(e) => return Some(format!("keygen{} failed in a fresh process: {}", n, e)),
        }
    }
    None
}

fn seed_with_bit(base: &[u8; 32], bit: i64) -> [u8; 32] {
    let mut s = *base;
    if bit >= 0 {
        let b = bit as usize;
        s[b / 8] ^= 1 << (b % 8);
    }
    s
}

pub fn replay(doc: &Value) -> Option<String> {
    match doc.get("kind")?.as_str()? {
        "world" => {
            let plan = WorldPlan::from_json(doc)?;
            if plan.n == 512 {
                let k = signers::regenerate_keys::<V512>(&plan).ok()?;
                run_plan::<V512>(&plan, k, true).class.map(|c| c.0)
            } else {
                let k = signers::regenerate_keys::<V1024>(&plan).ok()?;
                run_plan::<V1024>(&plan, k, true).class.map(|c| c.0)
            }
        }
        "long-history" => replay_long_history(doc),
        "derive" => {
            let n = doc.get("n")?.as_u64()? as usize;
            let sd: [u8; 32] = unhex(doc.get("seed_hex")?.as_str()?)?.try_into().ok()?;
            let reps = doc.get("reps")?.as_u64()? as usize;
            fn go<V: Variant>(sd: [u8; 32], reps: usize) -> bool {
                let (sk, pk) = match world::keygen_sim::<V>(sd, None, None).0 {
                    Ok(k) => k,
                    Err(_) => return false,
                };
                let want = V::pk_to_bytes(&pk);
                (0..reps * 4).any(|_| V::pk_to_bytes(&V::pk_from_sk(&sk)) != want)
            }
            let bad = if n == 512 { go::<V512>(sd, reps) } else { go::<V1024>(sd, reps) };
            if bad {
                Some(format!("keygen{} returned different key pairs for the same seed", n))
            } else {
                None
            }
        }
        "cross-build" => {
            let n = doc.get("n")?.as_u64()? as usize;
            let sd: [u8; 32] = unhex(doc.get("seed_hex")?.as_str()?)?.try_into().ok()?;
            let other = unhex(doc.get("other_build_digest_hex")?.as_str()?)?;
            let mine = if n == 512 { key_hashes::<V512>(sd) } else { key_hashes::<V1024>(sd) };
            if cfg!(feature = "deep") {
                // replayed by the instrumented build itself: nothing to compare with
                return None;
            }
            if mine != other {
                Some(format!("keygen{} returned different key pairs for the same seed", n))
            } else {
                None
            }
        }
        "mixed-keygen" => {
            let seq: Vec<(usize, [u8; 32])> = doc
                .get("seq")?
                .as_array()?
                .iter()
                .map(|e| {
                    let a = e.as_array()?;
                    Some((a.get(0)?.as_u64()? as usize, unhex(a.get(1)?.as_str()?)?.try_into().ok()?))
                })
                .collect::<Option<Vec<_>>>()?;
            mixed_sequence(&seq).0.map(|c| c.0)
        }
        "repeat" => {
            let n = doc.get("n")?.as_u64()? as usize;
            let seed: [u8; 32] = unhex(doc.get("seed_hex")?.as_str()?)?.try_into().ok()?;
            repeat_seed(n, seed, doc.get("times").and_then(|t| t.as_u64()).unwrap_or(3) as usize)
        }
        "neighbours" => {
            let n = doc.get("n")?.as_u64()? as usize;
            let base: [u8; 32] = unhex(doc.get("base_hex")?.as_str()?)?.try_into().ok()?;
            let bits: Vec<i64> = doc.get("bits")?.as_array()?.iter().filter_map(|b| b.as_i64()).collect();
            let gen = |s: [u8; 32]| -> Result<(Vec<u8>, Vec<u8>), Unwind> {
                if n == 512 {
                    world::keygen_sim::<V512>(s, None, None).0.map(|(sk, pk)| (V512::sk_to_bytes(&sk), V512::pk_to_bytes(&pk)))
                } else {
                    world::keygen_sim::<V1024>(s, None, None).0.map(|(sk, pk)| (V1024::sk_to_bytes(&sk), V1024::pk_to_bytes(&pk)))
                }
            };
            let ks: Vec<_> = bits.iter().map(|&b| gen(seed_with_bit(&base, b))).collect();
            for k in &ks {
                if let Err(u) = k {
                    return Some(format!("keygen{} fails on a seed: {}", n, u.signature()));
                }
            }
            if ks.len() == 2 && ks[0].as_ref().ok() == ks[1].as_ref().ok() {
                return Some(format!("two seeds that differ in one or two bits give the same key pair (variant {})", n));
            }
            None
        }
        _ => None,
    }
}

pub struct Ctx {
    pub shared: [u8; 32],
    pub p512: world::KeyPool<V512>,
    pub p1024: world::KeyPool<V1024>,
    pub r512: u64,
    pub s512: usize,
    pub o512: usize,
    pub r1024: u64,
    pub s1024: usize,
    pub o1024: usize,
    pub nb512: usize,
    pub nb1024: usize,
    pub mixed: u64,
}

pub fn context(tier: Tier, seed: u64) -> Result<Ctx, String> {
    let w = report::workers();
    // (runs, seeds per run, occurrences) per variant; base seeds for neighbourhoods
    let (r512, s512, o512, r1024, s1024, o1024, nb512, nb1024) = match tier {
        Tier::Quick => (8u64, 2usize, 3usize, 2u64, 2usize, 2usize, 1usize, 1usize),
        Tier::Thorough => (100u64, 2usize, 3usize, 20u64, 2usize, 2usize, 4usize, 1usize),
    };
    // one shared signing key per variant (generated in an isolated process)
    let pseed = report::run_seed(seed, "C15shared", 0);
    let p512: world::KeyPool<V512> = world::KeyPool::build(pseed, 1, 0, w);
    let p1024: world::KeyPool<V1024> = world::KeyPool::build(pseed, 1, 0, w);
    if p512.keys.is_empty() || p1024.keys.is_empty() {
        return Err("shared signing key could not be generated on the current tree".into());
    }
    let mixed = if tier == Tier::Quick { 16 } else { 128 };
    Ok(Ctx { shared: [0u8; 32], p512, p1024, r512, s512, o512, r1024, s1024, o1024, nb512, nb1024, mixed })
}

fn dispatch(ctx: &Ctx, seed: u64, run: u64) -> RunOutcome {
    fn go<V: Variant>(seed: u64, run: u64, k: &world::KeyEntry<V>, nseeds: usize, occ: usize) -> RunOutcome {
        match k.load() {
            Ok(kp) => one_run::<V>(seed, run, Arc::new(vec![kp]), k.seed, nseeds, occ),
            Err(e) => {
                let mut out = RunOutcome::default();
                out.stats.inc("harness.pool_key_not_loadable");
                out.stats.notes.insert(format!("shared key could not be decoded: {}", e));
                out
            }
        }
    }
    if run < ctx.r1024 {
        go::<V1024>(seed, run, &ctx.p1024.keys[0], ctx.s1024, ctx.o1024)
    } else if run < ctx.r1024 + ctx.r512 {
        go::<V512>(seed, run, &ctx.p512.keys[0], ctx.s512, ctx.o512)
    } else {
        mixed_run(seed, run, run - ctx.r1024 - ctx.r512)
    }
}

pub fn runner(tier: Tier, seed: u64) -> Option<(u64, Box<dyn Fn(u64) -> RunOutcome + Sync>)> {
    let ctx = context(tier, seed).ok()?;
    let n = ctx.r512 + ctx.r1024 + ctx.mixed;
    Some((n, Box::new(move |run| dispatch(&ctx, seed, run))))
}

pub fn rerun(tier: Tier, seed: u64, run: u64) -> Option<RunOutcome> {
    let ctx = context(tier, seed).ok()?;
    Some(dispatch(&ctx, seed, run))
}

pub fn check(tier: Tier, seed: u64) -> i32 {
    let mut rep = Report::new(PROP, tier, seed);
    let w = report::workers();
    let ctx = match context(tier, seed) {
        Ok(c) => c,
        Err(e) => {
            eprintln!("HARNESS-ERROR: {}", e);
            return 2;
        }
    };
    let _ = ctx.shared;
    let out = report::parallel_runs(ctx.r512 + ctx.r1024 + ctx.mixed, w, |run| dispatch(&ctx, seed, run));
    rep.absorb(out);
    if rep.stats.counters.get("harness.pool_key_not_loadable").copied().unwrap_or(0) > 0 {
        eprintln!("HARNESS-ERROR: {:?}", rep.stats.notes);
        return 2;
    }
    // pinned hard seeds, three generations each, every one in a fresh process
    {
        let mut pins: Vec<(usize, [u8; 32], String)> = pinned_hard().into_iter().map(|(n, c)| (n, crate::rng::counter_seed(c), format!("pinned hard seed, counter {}", c))).collect();
        // edge seeds: a seed value that an implementation might treat as "no seed", a sentinel or a default
        let mut one_first = [0u8; 32];
        one_first[0] = 1;
        let mut one_last = [0u8; 32];
        one_last[31] = 1;
        for n in [512usize, 1024] {
            for (sd, what) in [([0u8; 32], "all-zero seed"), ([0xffu8; 32], "all-ones seed"), (one_first, "seed 01 00 .. 00"), (one_last, "seed 00 .. 00 01"), ([0x55u8; 32], "seed 55 .. 55")] {
                pins.push((n, sd, what.to_string()));
            }
        }
        let items: Vec<u64> = (0..pins.len() as u64).collect();
        let job = |i: u64| -> Vec<u8> {
            let (n, sd, _) = &pins[i as usize];
            repeat_seed(*n, *sd, 3).unwrap_or_default().into_bytes()
        };
        let res = crate::isolate::fork_map(&items, w, None, &job);
        for (i, r) in res {
            rep.stats.inc("pinned_hard_seeds");
            rep.stats.evaluations += 3;
            let (n, sd, what) = &pins[i as usize];
            if let Ok(b) = r {
                if !b.is_empty() {
                    rep.violations.push(Violation {
                        property: PROP,
                        class: String::from_utf8_lossy(&b).to_string(),
                        detail: format!("variant {}: {}", n, what),
                        replay: json!({"kind": "repeat", "n": n, "seed_hex": hex(sd), "times": 4}),
                        run: (1 << 41) + 7,
                    });
                }
            }
        }
    }
    // deep batch: keygen with concurrent signers under function-entry pre-emption
    match crate::props::run_deep_batch(PROP, tier, seed) {
        Ok(Some(o)) => {
            rep.absorb(o);
            // the same seeds in this build (optimised, debug assertions on) and in the instrumented one
            // (unoptimised, debug assertions off): a key pair depends on nothing but the seed
            let (theirs, rest): (Vec<_>, Vec<_>) = std::mem::take(&mut rep.stats.blobs).into_iter().partition(|(t, _)| *t >= CROSS_BUILD_TAG && *t < CROSS_BUILD_TAG + 16);
            rep.stats.blobs = rest;
            let seeds = cross_build_seeds(seed);
            let items: Vec<u64> = (0..seeds.len() as u64).collect();
            let job = |i: u64| -> Vec<u8> {
                let (n, sd) = seeds[i as usize];
                if n == 512 {
                    key_hashes::<V512>(sd)
                } else {
                    key_hashes::<V1024>(sd)
                }
            };
            let ours = crate::isolate::fork_map(&items, w, None, &job);
            for (t, d) in theirs {
                let i = (t - CROSS_BUILD_TAG) as usize;
                rep.stats.inc("fault.B3_other_build_profile");
                rep.stats.evaluations += 1;
                if let Some(Ok(mine)) = ours.get(&(i as u64)) {
                    if !mine.is_empty() && !d.is_empty() && *mine != d {
                        let (n, sd) = seeds[i];
                        rep.violations.push(Violation {
                            property: PROP,
                            class: format!("keygen{} returned different key pairs for the same seed", n),
                            detail: format!("seed {}: this build (optimised, debug assertions on) and the instrumented build (unoptimised, debug assertions off) disagree", hex(&sd)),
                            replay: json!({"kind": "cross-build", "n": n, "seed_hex": hex(&sd), "other_build_digest_hex": hex(&d)}),
                            run: (1 << 41) + 30 + i as u64,
                        });
                    }
                }
            }
        }
        Ok(None) => {
            rep.stats.notes.insert("NOTE: no instrumented (deep) build available; the deep keygen batch was skipped".into());
        }
        Err(e) => {
            eprintln!("HARNESS-ERROR: {}", e);
            return 2;
        }
    }
    // long single-thread histories through the inner route
    {
        let (c512, c1024) = if tier == Tier::Quick { (72, 34) } else { (400, 160) };
        let o = long_histories(seed, c512, c1024, w);
        rep.absorb(o);
    }
    // the public half, derived again and again
    {
        let per = if tier == Tier::Quick { 12_000 } else { 200_000 };
        let o = derivation_repeats(seed, per, w);
        rep.absorb(o);
    }
    for i in 0..ctx.nb512 {
        let mut r = Prng::new(report::run_seed(seed, "C15nb512", i as u64));
        let o = neighbourhood::<V512>(r.seed32(), w);
        rep.absorb(o);
    }
    for i in 0..ctx.nb1024 {
        let mut r = Prng::new(report::run_seed(seed, "C15nb1024", i as u64));
        let o = neighbourhood::<V1024>(r.seed32(), w);
        rep.absorb(o);
    }
    rep.rule = "a case is one keygen(seed) call: (i) inside a seeded multi-thread plan where every seed occurs 2-3 times on the same or different baton-scheduled threads (pre-emption at the draws of keygen's seed-expanded stream and of concurrent sign calls), with or without a simulator stream installed behind the ambient seam, plus once in a fresh child process; (i'') for three seeds, in this build (optimised, debug assertions on) and in the instrumented build (unoptimised, debug assertions off); (i') the same in a deep batch (instrumented build: pre-emption at function entries, so also between two loads of shared state inside the sampler); (ii) in a sequence of keygens on one thread - mixed variants and unrelated seeds, or pinned seeds that take a rare branch of key generation, several in one process, or one variant and related seeds (a base seed, four single-bit neighbours, a seed sharing its first 24 bytes, one sharing its last 24 bytes, the base again) - each compared with a fresh process; (in both kinds of sequence every look the code takes at a clock may find that 61 s, 10 min or 2 h have passed - fault T2, through the harness's own clock_gettime; the reference generation runs on an undisturbed clock); (ii') in a long single-thread history (72 Falcon-512 / 34 Falcon-1024 pairs in quick, 400 / 160 in thorough) through SecretKey::generate_from_seed + PublicKey::from_secret_key with a sign call now and then, each pair compared with keygen(seed) in a fresh process; (ii'') the public half alone: PublicKey::from_secret_key repeated 156 000 times (thorough 2.6 million) on one secret key per variant over 16 processes; (iii) three times in fresh processes for five edge seeds per variant (all zero, all ones, a single 01 byte first or last, 55..55) and for the seeds that need the most ntru_gen attempts (adaptively chosen from the neighbourhoods, and pinned in corpus/C15/hard-seeds.txt); (iv) on one of the 256 single-bit neighbours of a sampled base seed (the neighbourhood of each sampled base seed is enumerated completely; base seeds are sampled). Non-trivial for (i): the call was pre-empted mid-call; for (ii): every neighbour. Distinct = distinct (schedule trace, thread, seed) resp. distinct key pairs".into();
    rep.assumptions = vec![
        "keygen is stopped after 3000 ntru_gen attempts' worth of draws (bounded liveness; a correct tree needs 13 resp. 24 attempts on average)".into(),
        "an ambient-entropy draw inside keygen is recorded as a probe, not an alarm; only differing key bytes are".into(),
    ];
    rep.components = json!({
        "real": ["keygen (StdRng expansion, ntru_gen, sampler_z, LDL tree)", "SecretKey/PublicKey::to_bytes", "sign (interleaved)", "std threads, child processes"],
        "stub": ["thread scheduler (baton)", "seed-stream tracer (hook H2: values pass through unchanged)", "ambient entropy stream (hook H1)"],
        "model": [],
    });
    rep.finish(report::confirm_in_fresh_process)
}
