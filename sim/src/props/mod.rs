pub mod c01;
pub mod c02;
pub mod c03;
pub mod c05;
pub mod c06;
pub mod c08;
pub mod c09;
pub mod c10;
pub mod c15;
pub mod c16;

use crate::report::Tier;
use serde_json::Value;

pub fn check(id: &str, tier: Tier, seed: u64) -> Option<i32> {
    Some(match id {
        "C01" => c01::check(tier, seed),
        "C02" => c02::check(tier, seed),
        "C03" => c03::check(tier, seed),
        "C05" => c05::check(tier, seed),
        "C06" => c06::check(tier, seed),
        "C08" => c08::check(tier, seed),
        "C09" => c09::check(tier, seed),
        "C10" => c10::check(tier, seed),
        "C15" => c15::check(tier, seed),
        "C16" => c16::check(tier, seed),
        _ => return None,
    })
}

/// Re-execute one run of a batch from (tier, seed, run index).
pub fn rerun(id: &str, tier: Tier, seed: u64, run: u64) -> Option<crate::report::RunOutcome> {
    match id {
        "C01" => c01::rerun(tier, seed, run),
        "C02" => c02::rerun(tier, seed, run),
        "C03" => c03::rerun(tier, seed, run),
        "C05" => c05::rerun(tier, seed, run),
        "C06" => c06::rerun(tier, seed, run),
        "C08" => c08::rerun(tier, seed, run),
        "C09" => c09::rerun(tier, seed, run),
        "C10" => c10::rerun(tier, seed, run),
        "C15" => c15::rerun(tier, seed, run),
        "C16" => c16::rerun(tier, seed, run),
        _ => None,
    }
}

pub type Runner = Box<dyn Fn(u64) -> crate::report::RunOutcome + Sync>;

/// (number of runs in the batch, function executing one run) with the batch context prepared once
pub fn runner(id: &str, tier: Tier, seed: u64) -> Option<(u64, Runner)> {
    match id {
        "C01" => c01::runner(tier, seed),
        "C02" => c02::runner(tier, seed),
        "C03" => c03::runner(tier, seed),
        "C05" => c05::runner(tier, seed),
        "C06" => c06::runner(tier, seed),
        "C08" => c08::runner(tier, seed),
        "C09" => c09::runner(tier, seed),
        "C10" => c10::runner(tier, seed),
        "C15" => c15::runner(tier, seed),
        "C16" => c16::runner(tier, seed),
        _ => None,
    }
}

/// Run the deep batch of a property with the instrumented build, if the check script produced one.
/// Ok(None) = no instrumented build available.
pub fn run_deep_batch(prop: &str, tier: Tier, seed: u64) -> Result<Option<crate::report::RunOutcome>, String> {
    let bin = match std::env::var("VERIF_DEEP_BIN").ok().filter(|p| std::path::Path::new(p).exists()) {
        Some(b) => b,
        None => return Ok(None),
    };
    let tmp = crate::report::verif_root().join("sim").join("target").join(format!("deep-{}-{}.out", prop, std::process::id()));
    let _ = std::fs::create_dir_all(tmp.parent().unwrap());
    let st = std::process::Command::new(&bin).args(["deepruns", prop, tier.name(), &seed.to_string(), tmp.to_str().unwrap()]).status();
    let ok = st.map(|s| s.success()).unwrap_or(false);
    let r = std::fs::read(&tmp).ok().and_then(|b| crate::report::RunOutcome::from_bytes(&b));
    let _ = std::fs::remove_file(&tmp);
    match r {
        Some(o) if ok => Ok(Some(o)),
        _ => Err("the deep batch did not deliver a result".into()),
    }
}

pub const ALL: [&str; 10] = ["C01", "C02", "C03", "C05", "C06", "C08", "C09", "C10", "C15", "C16"];

/// replay kind "rerun": execute the whole run again, in its own process, and
/// look for the recorded violation class (or for the process dying again)
fn replay_rerun(id: &str, doc: &Value) -> Option<String> {
    let tier = if doc.get("tier")?.as_str()? == "thorough" { Tier::Thorough } else { Tier::Quick };
    let seed = doc.get("seed")?.as_u64()?;
    let run = doc.get("run")?.as_u64()?;
    let want = doc.get("violation").and_then(|v| v.as_str()).unwrap_or("").to_string();
    let id = id.to_string();
    let r = crate::isolate::isolated(
        || match rerun(&id, tier, seed, run) {
            Some(o) => o.to_bytes(),
            None => Vec::new(),
        },
        crate::isolate::run_timeout_s(),
    );
    match r {
        Ok(bytes) => {
            let o = crate::report::RunOutcome::from_bytes(&bytes)?;
            if o.violations.iter().any(|v| v.class == want) {
                Some(want)
            } else {
                o.violations.first().map(|v| v.class.clone())
            }
        }
        Err(crate::isolate::ChildFailure::Panic { in_repo: false, location, message }) => {
            eprintln!("HARNESS-ERROR: panic in the harness at {}: {}", location, message);
            None
        }
        Err(fail) => Some(format!("run's process died: {}", fail.describe())),
    }
}

/// Some(Some(class)) reproduced, Some(None) not reproduced, None unknown property
pub fn replay(id: &str, doc: &Value) -> Option<Option<String>> {
    if doc.get("kind").and_then(|k| k.as_str()) == Some("rerun") {
        return Some(replay_rerun(id, doc));
    }
    Some(match id {
        "C01" => c01::replay(doc),
        "C02" => c02::replay(doc),
        "C03" => c03::replay(doc),
        "C05" => c05::replay(doc),
        "C06" => c06::replay(doc),
        "C08" => c08::replay(doc),
        "C09" => c09::replay(doc),
        "C10" => c10::replay(doc),
        "C15" => c15::replay(doc),
        "C16" => c16::replay(doc),
        _ => return None,
    })
}
