pub mod c01;
pub mod c02;
pub mod c03;
pub mod c05;
pub mod c06;
pub mod c09;

use crate::report::Tier;
use serde_json::Value;

pub fn check(id: &str, tier: Tier, seed: u64) -> Option<i32> {
    Some(match id {
        "C01" => c01::check(tier, seed),
        "C02" => c02::check(tier, seed),
        "C03" => c03::check(tier, seed),
        "C05" => c05::check(tier, seed),
        "C06" => c06::check(tier, seed),
        "C09" => c09::check(tier, seed),
        _ => return None,
    })
}

/// Some(Some(class)) reproduced, Some(None) not reproduced, None unknown property
pub fn replay(id: &str, doc: &Value) -> Option<Option<String>> {
    Some(match id {
        "C01" => c01::replay(doc),
        "C02" => c02::replay(doc),
        "C03" => c03::replay(doc),
        "C05" => c05::replay(doc),
        "C06" => c06::replay(doc),
        "C09" => c09::replay(doc),
        _ => return None,
    })
}
