pub mod c03;
