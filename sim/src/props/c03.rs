//! C03 — decoders and verify are total. Nodes run inside `guarded`; the
//! invariant after every delivery is "no node unwound". Built with overflow
//! checks, so arithmetic overflow is an unwind too.

use crate::deliveries::{self as dl, Delivery, NodeResult, Pools, Target, PROFILE_C03};
use crate::faults::{minimise_damage, FaultMix};
use crate::guard::{guarded, Unwind};
use crate::reference::codec;
use crate::report::{self, Report, RunOutcome, Stats, Tier, Violation};
use crate::rng::{hash_bytes, Prng};
use serde_json::{json, Value};

pub const PROP: &str = "C03";

fn unwind_class(d: &Delivery) -> Option<String> {
    match guarded(|| dl::execute_dyn(d)) {
        Ok(_) => None,
        Err(Unwind::Code { location, .. }) => Some(format!("unwind in {} at {}", stage(d), location)),
        Err(Unwind::NoProgress { what, .. }) => Some(format!("harness step bound in {}: {}", stage(d), what)),
    }
}

fn stage(d: &Delivery) -> &'static str {
    match d.target {
        Target::Pk => "PublicKey::from_bytes",
        Target::Sk => "SecretKey::from_bytes",
        Target::Sig => "Signature::from_bytes",
        Target::Verify => "from_bytes+verify",
    }
}

/// Shrink a failing delivery while the same violation class persists.
pub fn minimise(d: &Delivery, class: &str) -> Delivery {
    let mut cur = d.clone();
    let same = |x: &Delivery| unwind_class(x).as_deref() == Some(class);
    // 1. empty message
    if cur.target == Target::Verify && !cur.msg.is_empty() {
        let mut t = cur.clone();
        t.msg.clear();
        if same(&t) {
            cur = t;
        }
    }
    // 2. revert damaged bytes to the pristine encoding where possible
    if let Some(p) = cur.pristine.clone() {
        if p.len() == cur.bytes.len() {
            let base = cur.clone();
            let m = minimise_damage(&p, &cur.bytes, |b| {
                let mut t = base.clone();
                t.bytes = b.to_vec();
                same(&t)
            });
            cur.bytes = m;
        }
    }
    // 3. signature bodies: zero the salt, then simplify coefficient tokens
    //    (clear sign and low bits, keep the unary lengths => keep the alignment)
    if cur.target == Target::Verify && cur.bytes.len() > 41 {
        let mut t = cur.clone();
        for b in t.bytes[1..41].iter_mut() {
            *b = 0;
        }
        if same(&t) {
            cur = t;
        }
        let nbits = (cur.bytes.len() - 41) * 8;
        // token boundaries by the reference grammar
        let mut starts = Vec::new();
        {
            let bits = codec::Bits::new(&cur.bytes[41..]);
            let mut pos = 0usize;
            while pos + 9 <= nbits && starts.len() < cur.n {
                starts.push(pos);
                let mut q = pos + 8;
                while q < nbits && bits.get(q) == Some(false) {
                    q += 1;
                }
                pos = q + 1;
            }
        }
        // greedy, in blocks
        let mut block = (starts.len() / 2).max(1);
        let mut budget = 600;
        while block >= 1 && budget > 0 {
            let mut i = 0;
            while i < starts.len() && budget > 0 {
                let mut t = cur.clone();
                let mut changed = false;
                for &s in &starts[i..(i + block).min(starts.len())] {
                    for k in 0..8 {
                        let p = 41 * 8 + s + k;
                        if p / 8 < t.bytes.len() && (t.bytes[p / 8] >> (7 - p % 8)) & 1 == 1 {
                            t.bytes[p / 8] &= !(1 << (7 - p % 8));
                            changed = true;
                        }
                    }
                }
                budget -= 1;
                if changed && same(&t) {
                    cur = t;
                }
                i += block;
            }
            if block == 1 {
                break;
            }
            block /= 2;
        }
    }
    cur.detail = format!("{} [minimised]", cur.detail);
    cur
}

pub fn one_run(seed: u64, run: u64, pools: &Pools, deliveries: usize) -> RunOutcome {
    let mut rng = Prng::new(report::run_seed(seed, PROP, run));
    let mix = FaultMix::swarm(&mut rng);
    let mut st = Stats::default();
    let mut out = RunOutcome::default();
    let mut log = report::EventLog::new(false);
    st.inc("runs");
    // resource exhaustion (every fifth run), first thing in the run's process - before anything in it has
    // created a thread whose stack the C library would keep for reuse: the decoders and verify in a
    // process that cannot map any more memory, and therefore cannot start a thread either
    if run % 5 == 0 {
        let mut prng = Prng::new(report::run_seed(seed, "C03exhaustion", run));
        if let Some((class, detail)) = exhaustion_probe(&mut prng, pools, &mut st) {
            out.violations.push(Violation { property: PROP, class, detail, replay: json!({"kind": "rerun"}), run });
        }
    }
    for i in 0..deliveries {
        let d = dl::draw(&mut rng, pools, &mix, &PROFILE_C03);
        st.evaluations += 1;
        st.steps += 1;
        for f in &d.faults {
            st.inc(&format!("fault.{}", f.kind()));
        }
        st.inc(&format!("origin.{}", d.origin.split('+').next().unwrap_or("")));
        st.inc(&format!("target.{}{}", d.target.name(), d.n));
        let r = guarded(|| dl::execute_dyn(&d));
        let deep;
        match &r {
            Ok(NodeResult::Decoded { .. }) => {
                st.inc("outcome.decoded");
                deep = true;
            }
            Ok(NodeResult::Rejected { error }) => {
                st.inc(&format!("outcome.rejected.{}", error));
                deep = error == "BadFieldElementEncoding";
            }
            Ok(NodeResult::VerifyNotReached { .. }) => {
                st.inc("outcome.verify_not_reached");
                deep = false;
            }
            Ok(NodeResult::Verdict(v)) => {
                st.inc(if *v { "outcome.verify_true" } else { "outcome.verify_false" });
                deep = true;
                // where does the reference parser stop? (reach of the parser states)
                if d.bytes.len() > 41 {
                    match codec::decompress(&d.bytes[41..], d.n) {
                        Ok(_) => st.inc("decompress_ref.ok"),
                        Err(e) => st.inc(&format!("decompress_ref.{:?}", e)),
                    }
                }
            }
            Err(_) => {
                deep = true;
            }
        }
        if deep {
            report::keep_distinct(&mut st, hash_bytes(hash_bytes(d.n as u64, &d.bytes), &d.pk));
        }
        log.event(&format!(
            "{} {} {} {:016x} {:?}",
            i,
            d.target.name(),
            d.n,
            hash_bytes(0, &d.bytes),
            r.as_ref().map(|x| std::mem::discriminant(x)).is_ok()
        ));
        if run == 0 && st.samples.len() < 4 && (i % 97 == 5) {
            st.sample(d.summary());
        }
        if let Err(u) = r {
            let class = match &u {
                Unwind::Code { location, .. } => format!("unwind in {} at {}", stage(&d), location),
                Unwind::NoProgress { what, .. } => format!("harness step bound in {}: {}", stage(&d), what),
            };
            st.inc("unwinds");
            // minimise only the first of each class per run
            if !out.violations.iter().any(|v: &Violation| v.class == class) {
                let m = minimise(&d, &class);
                out.violations.push(Violation {
                    property: PROP,
                    class,
                    detail: format!("{} ({}); {:?}", m.detail, m.origin, u),
                    replay: json!({"kind": "delivery", "delivery": m.to_json(), "original_faults": d.faults.iter().map(|f| f.to_json()).collect::<Vec<_>>()}),
                    run,
                });
            }
        }
    }
    // thread teardown: a verifier thread's last calls may come from the destructor of one of the
    // application's own thread-locals, after the library's thread-locals (if it has any) are gone
    if let Some((class, detail)) = teardown_probe(&mut rng, pools, &mut st) {
        out.violations.push(Violation { property: PROP, class, detail, replay: json!({"kind": "rerun"}), run });
    }
    st.log_hash = log.hash;
    out.stats = st;
    out
}

/// Fault F1: a forked child of this run lowers its address-space limit to what it already uses plus 1 MiB (less than one thread stack),
/// then calls the three decoders and verify on well-formed inputs. Running out of memory inside an
/// allocation aborts the process (the platform's behaviour, not a panic of the library): a child that
/// dies is inconclusive. A child that survives must report that nothing unwound.
fn exhaustion_probe(rng: &mut Prng, pools: &Pools, st: &mut Stats) -> Option<(String, String)> {
    let n = if rng.chance(1, 2) { 512 } else { 1024 };
    let (msg, sig, pk, sk) = if n == 512 {
        let k = rng.pick(&pools.p512.keys);
        let (m, s) = rng.pick(&k.sigs).clone();
        (m, s, k.pk_bytes.clone(), k.sk_bytes.clone())
    } else {
        let k = rng.pick(&pools.p1024.keys);
        let (m, s) = rng.pick(&k.sigs).clone();
        (m, s, k.pk_bytes.clone(), k.sk_bytes.clone())
    };
    st.inc("fault.F1_address_space_exhausted");
    let r = crate::isolate::isolated(
        move || {
            let pages: u64 = std::fs::read_to_string("/proc/self/statm").ok().and_then(|s| s.split_whitespace().next().and_then(|x| x.parse().ok())).unwrap_or(0);
            let lim = pages * 4096 + (1 << 20);
            let rl = libc::rlimit { rlim_cur: lim, rlim_max: libc::RLIM_INFINITY };
            unsafe {
                libc::setrlimit(libc::RLIMIT_AS, &rl);
            }
            let d = |target: Target, bytes: &Vec<u8>| Delivery { n, target, bytes: bytes.clone(), msg: msg.clone(), pk: pk.clone(), pristine: None, faults: vec![], origin: "exhaustion".into(), detail: String::new() };
            for (what, del) in [("SecretKey::from_bytes", d(Target::Sk, &sk)), ("PublicKey::from_bytes", d(Target::Pk, &pk)), ("Signature::from_bytes", d(Target::Sig, &sig)), ("from_bytes+verify", d(Target::Verify, &sig))] {
                if let Err(u) = guarded(|| dl::execute_dyn(&del)) {
                    return format!("{}: {}", what, u.signature()).into_bytes();
                }
            }
            Vec::new()
        },
        60,
    );
    match r {
        Ok(b) if b.is_empty() => None,
        Ok(b) => Some((format!("unwind when the address space is exhausted (variant {})", n), String::from_utf8_lossy(&b).to_string())),
        Err(_) => {
            st.inc("inconclusive.exhaustion_probe_died");
            None
        }
    }
}

/// What a destructor of an application thread-local does with the library while its thread exits.
struct TeardownProbe {
    n: usize,
    msg: Vec<u8>,
    sig: Vec<u8>,
    pk: Vec<u8>,
    sk: Vec<u8>,
    report: std::sync::mpsc::Sender<Result<(), String>>,
}

impl Drop for TeardownProbe {
    fn drop(&mut self) {
        let d = |target: Target, bytes: &Vec<u8>| Delivery { n: self.n, target, bytes: bytes.clone(), msg: self.msg.clone(), pk: self.pk.clone(), pristine: None, faults: vec![], origin: "teardown".into(), detail: String::new() };
        for (what, del) in [("from_bytes+verify", d(Target::Verify, &self.sig)), ("PublicKey::from_bytes", d(Target::Pk, &self.pk)), ("SecretKey::from_bytes", d(Target::Sk, &self.sk)), ("Signature::from_bytes", d(Target::Sig, &self.sig))] {
            if let Err(u) = guarded(|| dl::execute_dyn(&del)) {
                let _ = self.report.send(Err(format!("{}: {}", what, u.signature())));
                return;
            }
        }
        let _ = self.report.send(Ok(()));
    }
}

thread_local! {
    static TEARDOWN: std::cell::RefCell<Option<TeardownProbe>> = const { std::cell::RefCell::new(None) };
}

fn teardown_probe(rng: &mut Prng, pools: &Pools, st: &mut Stats) -> Option<(String, String)> {
    let n = if rng.chance(1, 2) { 512 } else { 1024 };
    let (msg, sig, pk, sk) = if n == 512 {
        let k = rng.pick(&pools.p512.keys);
        let (m, s) = rng.pick(&k.sigs).clone();
        (m, s, k.pk_bytes.clone(), k.sk_bytes.clone())
    } else {
        let k = rng.pick(&pools.p1024.keys);
        let (m, s) = rng.pick(&k.sigs).clone();
        (m, s, k.pk_bytes.clone(), k.sk_bytes.clone())
    };
    let (tx, rx) = std::sync::mpsc::channel();
    let probe = TeardownProbe { n, msg: msg.clone(), sig: sig.clone(), pk: pk.clone(), sk: sk.clone(), report: tx };
    let warm = Delivery { n, target: Target::Verify, bytes: sig, msg, pk, pristine: None, faults: vec![], origin: "teardown-warm-up".into(), detail: String::new() };
    let h = std::thread::spawn(move || {
        // the harness's own thread-local (panic bookkeeping) first, then the application's, so that both are
        // destroyed after anything the library registers later
        let _ = guarded(|| ());
        TEARDOWN.with(|t| *t.borrow_mut() = Some(probe));
        let _ = guarded(|| dl::execute_dyn(&warm));
    });
    let joined = h.join();
    st.inc("fault.T1_calls_during_thread_teardown");
    st.evaluations += 4;
    match rx.recv_timeout(std::time::Duration::from_secs(30)) {
        Ok(Ok(())) => None,
        Ok(Err(e)) => Some((format!("unwind during thread teardown (variant {})", n), e)),
        Err(_) => {
            if joined.is_err() {
                Some((format!("unwind during thread teardown (variant {})", n), "the verifier thread died in its destructors".into()))
            } else {
                None
            }
        }
    }
}

pub fn replay(doc: &Value) -> Option<String> {
    let d = Delivery::from_json(doc.get("delivery")?)?;
    unwind_class(&d)
}

/// Regression corpus: literal deliveries that once violated the property.
pub fn corpus(report: &mut Report) {
    let dir = report::verif_root().join("corpus").join(PROP);
    let mut files: Vec<_> = match std::fs::read_dir(&dir) {
        Ok(rd) => rd.filter_map(|e| e.ok()).map(|e| e.path()).filter(|p| p.extension().map(|x| x == "json").unwrap_or(false)).collect(),
        Err(_) => return,
    };
    files.sort();
    for f in files {
        let doc: Value = match std::fs::read_to_string(&f).ok().and_then(|s| serde_json::from_str(&s).ok()) {
            Some(v) => v,
            None => continue,
        };
        report.stats.inc("corpus.replayed");
        report.stats.evaluations += 1;
        if let Some(class) = replay(&doc) {
            report.violations.push(Violation {
                property: PROP,
                class,
                detail: format!("regression corpus entry {}", f.display()),
                replay: doc.clone(),
                run: 0,
            });
        }
    }
}

pub struct Ctx {
    pub pools: Pools,
    pub runs: u64,
    pub per_run: usize,
}

pub fn context(tier: Tier, seed: u64) -> Result<Ctx, String> {
    let w = report::workers();
    let (runs, per_run, k512, k1024) = match tier {
        Tier::Quick => (500u64, 2000usize, 12, 4),
        Tier::Thorough => (12000u64, 4000usize, 32, 12),
    };
    let pools = Pools::build(report::run_seed(seed, "pool", 0), k512, k1024, 6, w);
    if !pools.usable() {
        return Err(format!(
            "key pool could not be built (keygen/sign failed on the current tree): {:?} {:?}",
            pools.p512.failures.first().map(|f| &f.1),
            pools.p1024.failures.first().map(|f| &f.1)
        ));
    }
    Ok(Ctx { pools, runs, per_run })
}

pub fn runner(tier: Tier, seed: u64) -> Option<(u64, Box<dyn Fn(u64) -> RunOutcome + Sync>)> {
    let ctx = context(tier, seed).ok()?;
    let n = ctx.runs;
    Some((n, Box::new(move |run| one_run(seed, run, &ctx.pools, ctx.per_run))))
}

pub fn rerun(tier: Tier, seed: u64, run: u64) -> Option<RunOutcome> {
    let ctx = context(tier, seed).ok()?;
    Some(one_run(seed, run, &ctx.pools, ctx.per_run))
}

pub fn check(tier: Tier, seed: u64) -> i32 {
    let mut rep = Report::new(PROP, tier, seed);
    if tier == Tier::Thorough {
        report::DISTINCT_SHIFT.store(4, std::sync::atomic::Ordering::Relaxed);
    }
    let w = report::workers();
    let ctx = match context(tier, seed) {
        Ok(c) => c,
        Err(e) => {
            eprintln!("HARNESS-ERROR: {}", e);
            return 2;
        }
    };
    corpus(&mut rep);
    let out = report::parallel_runs(ctx.runs, w, |run| one_run(seed, run, &ctx.pools, ctx.per_run));
    rep.absorb(out);
    rep.rule = "a case is one delivery (bytes handed to a decoder, or a (msg, sig, pk) triple handed to from_bytes+verify) produced by the seeded channel/disk fault catalogue or the Byzantine encoders from pristine encodings of the per-invocation key pool; non-trivial = it got past the frame checks (decoded, rejected at field level, or reached verify); distinct = distinct delivered bytes".to_string() + &report::distinct_rule_suffix();
    rep.assumptions = vec![
        "harness built with overflow-checks=true and debug-assertions=true, so arithmetic overflow unwinds".into(),
        "key pool is generated by the current tree; a broken keygen/sign is reported as harness error here and as a violation by C01/C05/C15".into(),
    ];
    rep.components = json!({
        "real": ["PublicKey::from_bytes", "SecretKey::from_bytes", "Signature::from_bytes", "verify", "keygen+sign (pristine material)"],
        "stub": ["channel and disk (in-memory byte strings with the fault catalogue)", "ambient entropy of the pool's signers (simulator stream behind hook H1)"],
        "model": ["reference Decompress (only to histogram where the parser stops)", "Byzantine encoders Z2/Z3"],
    });
    rep.finish(report::confirm_in_fresh_process)
}
