//! C02 — verify accepts exactly what the specification accepts. Every
//! (msg, sig, pk) delivery that decodes is judged by the real `verify` and by
//! SpecVerify; the verdicts must be equal, and the same triple must always get
//! the same verdict (duplicate / reordered deliveries).

use crate::byz;
use crate::deliveries::{self as dl, Delivery, NodeResult, Pools, Profile, Target};
use crate::faults::{minimise_damage, FaultMix};
use crate::guard::guarded;
use crate::reference::codec::{self, BitWriter, Params};
use crate::reference::specverify::{SpecVerifier, Verdict};
use crate::report::{self, Report, RunOutcome, Stats, Tier, Violation};
use crate::rng::{hash_bytes, mix, Prng};
use crate::variant::{Variant, V1024, V512};
use crate::world::{self, SignPlan};
use serde_json::{json, Value};
use std::collections::BTreeMap;

pub const PROP: &str = "C02";

const PROFILE: Profile = Profile {
    w_pk: 0,
    w_sk: 0,
    w_sig: 0,
    w_verify: 70,
    w_z2: 30,
    w_z3: 0,
    w_z4: 1,
    w_z5: 2,
    clean: 40,
    z7: 6,
};

pub struct Oracles {
    pub v512: SpecVerifier,
    pub v1024: SpecVerifier,
}

impl Oracles {
    pub fn new() -> Self {
        Oracles {
            v512: SpecVerifier::new(512),
            v1024: SpecVerifier::new(1024),
        }
    }
    pub fn get(&self, n: usize) -> &SpecVerifier {
        if n == 512 {
            &self.v512
        } else {
            &self.v1024
        }
    }
}

/// lenient parse of public-key coefficients (14-bit fields, not range-checked)
fn pk_fields(p: Params, pk: &[u8]) -> Option<Vec<i64>> {
    if pk.len() != p.pk_len {
        return None;
    }
    let mut bits = codec::Bits::new(&pk[1..]);
    (0..p.n).map(|_| bits.take(14).map(|v| v as i64)).collect()
}

#[derive(Debug, Clone, PartialEq)]
pub enum Judgement {
    /// both decode, verdicts (impl, spec)
    Both { real: bool, spec: Verdict },
    NotReached,
    Unwind,
}

pub fn judge(or: &Oracles, d: &Delivery) -> Judgement {
    let p = codec::params(d.n);
    let r = match guarded(|| dl::execute_dyn(d)) {
        Ok(r) => r,
        Err(_) => return Judgement::Unwind,
    };
    let real = match r {
        NodeResult::Verdict(b) => b,
        _ => return Judgement::NotReached,
    };
    let h = match pk_fields(p, &d.pk) {
        Some(h) => h,
        None => return Judgement::NotReached,
    };
    let spec = or.get(d.n).verify(&d.msg, &d.bytes[1..41], &d.bytes[41..], &h);
    Judgement::Both { real, spec }
}

pub fn class_of(n: usize, j: &Judgement) -> Option<String> {
    let bound = codec::params(n).bound;
    match j {
        Judgement::Both { real, spec } if *real != spec.accepted() => Some(match spec {
            Verdict::Accept { norm } if *norm == bound => {
                format!("verify{} rejects a well-formed signature whose norm is exactly floor(beta^2)", n)
            }
            Verdict::Accept { .. } => format!("verify{} rejects a well-formed signature whose norm is below the bound", n),
            Verdict::RejectNorm { .. } => format!("verify{} accepts a signature whose norm exceeds the bound", n),
            Verdict::RejectEncoding(e) => format!("verify{} accepts a malformed compressed signature ({:?})", n, e),
        }),
        _ => None,
    }
}

fn minimise(or: &Oracles, d: &Delivery, class: &str) -> Delivery {
    let mut cur = d.clone();
    if let Some(p) = cur.pristine.clone() {
        if p.len() == cur.bytes.len() {
            let base = cur.clone();
            cur.bytes = minimise_damage(&p, &cur.bytes, |b| {
                let mut t = base.clone();
                t.bytes = b.to_vec();
                class_of(t.n, &judge(or, &t)).as_deref() == Some(class)
            });
        }
    }
    cur.detail = format!("{} [minimised]", cur.detail);
    cur
}

/// Z1 triples around the acceptance boundary, plus non-canonical re-encodings
/// (Z2) of their s2 that keep the norm small.
fn byzantine_deliveries(rng: &mut Prng, or: &Oracles, n: usize, out: &mut Vec<Delivery>) {
    let p = codec::params(n);
    let other_bound = codec::params(if n == 512 { 1024 } else { 512 }).bound;
    let targets: Vec<(i64, bool)> = vec![
        (p.bound - 1, false),
        (p.bound, false),
        (p.bound + 1, false),
        (p.bound, true),
        (p.bound + 1, true),
        (other_bound - 1, false),
        (other_bound, false),
        (other_bound + 1, false),
        (p.bound - 1 - rng.below(1 << 20) as i64, false),
        (p.bound + 1 + rng.below(1 << 20) as i64, false),
        (p.bound / 2 + rng.below(1 << 20) as i64, rng.chance(1, 2)),
        (40_000_000 + rng.below(1 << 22) as i64, true),
    ];
    let (t, edge) = *rng.pick(&targets);
    // a third of the triples fill the compressed budget exactly (or leave 1..8 bits)
    let fill = if !edge && rng.chance(1, 3) { Some(*rng.pick(&[0usize, 0, 0, 1, 2, 7, 8])) } else { None };
    // a third of the remaining triples are lopsided: all of the norm in s2 (s1 = 0), or all of it in s1
    let shape: u8 = if fill.is_none() && !edge { *rng.pick(&[0u8, 0, 0, 0, 1, 2]) } else { 0 };
    let tr = match byz::exact_norm_triple_shape(p, &or.get(n).ntt, rng, t, edge, fill, shape) {
        Some(t) => t,
        None => return,
    };
    // Z1-huge: a triple with one s2 coefficient in 6145..12159 and an otherwise tiny vector; its norm is
    // whatever it is (no exact target) - the verdict must still be the specification's
    if rng.chance(1, 3) {
        let big = 6145 + rng.below(12160 - 6145) as i64;
        let tgt = big * big + 40_000 + rng.below(1 << 16) as i64;
        if let Some(h) = byz::exact_norm_triple_shape(p, &or.get(n).ntt, rng, tgt, false, None, 4) {
            out.push(Delivery {
                n,
                target: Target::Verify,
                bytes: h.sig,
                msg: h.msg,
                pk: h.pk,
                pristine: None,
                faults: vec![],
                origin: "Z1-huge-s2".into(),
                detail: h.note,
            });
        }
    }
    let base = Delivery {
        n,
        target: Target::Verify,
        bytes: tr.sig.clone(),
        msg: tr.msg.clone(),
        pk: tr.pk.clone(),
        pristine: None,
        faults: vec![],
        origin: if fill.is_some() { "Z1-fill".into() } else if shape == 1 { "Z1-all-in-s2".into() } else if shape == 2 { "Z1-all-in-s1".into() } else { "Z1".into() },
        detail: format!("{} max|s1|={}", tr.note, tr.s1_max),
    };
    out.push(base.clone());
    // re-encodings of the same s2
    let s2 = match codec::decompress(&tr.sig[41..], n) {
        Ok(v) => v,
        Err(_) => return,
    };
    let nbytes = p.sig_len - 41;
    let build = |mutate: &dyn Fn(usize, i64, &mut BitWriter) -> bool, tailbit: Option<usize>| -> Option<Vec<u8>> {
        let mut w = BitWriter::default();
        for (i, &c) in s2.iter().enumerate() {
            if !mutate(i, c, &mut w) {
                codec::push_coefficient(&mut w, c);
            }
        }
        if w.len() > nbytes * 8 {
            return None;
        }
        let used = w.len();
        let mut body = w.to_bytes();
        body.resize(nbytes, 0);
        if let Some(tb) = tailbit {
            let pos = used + tb;
            if pos >= nbytes * 8 {
                return None;
            }
            body[pos / 8] |= 1 << (7 - pos % 8);
        }
        let mut sig = tr.sig[..41].to_vec();
        sig.extend_from_slice(&body);
        Some(sig)
    };
    let push = |out: &mut Vec<Delivery>, sig: Option<Vec<u8>>, label: &str| {
        if let Some(sig) = sig {
            let mut d = base.clone();
            d.bytes = sig;
            d.origin = format!("Z1+{}", label);
            out.push(d);
        }
    };
    // negative zero at the first zero coefficient
    if let Some(zi) = s2.iter().position(|&c| c == 0) {
        push(
            out,
            build(
                &|i, _c, w| {
                    if i == zi {
                        w.push(true);
                        w.push_bits(0, 7);
                        w.push(true);
                        true
                    } else {
                        false
                    }
                },
                None,
            ),
            "Z2-negzero",
        );
    }
    // a set padding bit
    push(out, build(&|_, _, _| false, Some(rng.usize_below(8))), "Z2-padding");
    // the last (or another) coefficient with 2^k extra unary zeros: encodes c +- 128*extra
    for &(idx, extra) in &[(n - 1, 512usize), (n - 1, 256), (n - 1, 1024), (n / 2, 512), (0, 512)] {
        push(
            out,
            build(
                &|i, c, w| {
                    if i == idx {
                        w.push(c < 0);
                        w.push_bits((c.unsigned_abs() & 127) as u64, 7);
                        for _ in 0..((c.unsigned_abs() >> 7) as usize + extra) {
                            w.push(false);
                        }
                        w.push(true);
                        true
                    } else {
                        false
                    }
                },
                None,
            ),
            "Z2-longrun",
        );
    }
}

fn honest_deliveries<V: Variant>(rng: &mut Prng, pool: &world::KeyPool<V>, count: usize, out: &mut Vec<Delivery>) {
    // decode two keys of the pool inside this run's process
    let mut loaded = Vec::new();
    for _ in 0..2 {
        let k = rng.pick(&pool.keys);
        if let Ok((sk, _pk)) = k.load() {
            loaded.push((sk, k));
        }
    }
    if loaded.is_empty() {
        return;
    }
    for _ in 0..count {
        let (sk, k) = &loaded[rng.usize_below(loaded.len())];
        let msg = world::message(rng);
        let plan = SignPlan::uniform(rng.next_u64());
        if let (Ok(sig), _) = world::sign_sim::<V>(sk, &msg, &plan, None) {
            out.push(Delivery {
                n: V::N,
                target: Target::Verify,
                bytes: V::sig_to_bytes(&sig),
                msg,
                pk: k.pk_bytes.clone(),
                pristine: None,
                faults: vec![],
                origin: "honest".into(),
                detail: format!("fresh honest signature, msg len"),
            });
        }
    }
}

pub fn one_run(seed: u64, run: u64, pools: &Pools, or: &Oracles, deliveries: usize) -> RunOutcome {
    let mut rng = Prng::new(report::run_seed(seed, PROP, run));
    let mixf = FaultMix {
        truncate: false,
        extend: false,
        ..FaultMix::swarm(&mut rng)
    };
    let mut st = Stats::default();
    let mut out = RunOutcome::default();
    let mut log = report::EventLog::new(false);
    st.inc("runs");
    // the batch of deliveries of this run
    let mut batch: Vec<Delivery> = Vec::new();
    honest_deliveries::<V512>(&mut rng, &pools.p512, 12, &mut batch);
    honest_deliveries::<V1024>(&mut rng, &pools.p1024, 4, &mut batch);
    for _ in 0..deliveries / 40 {
        let n = if rng.chance(1, 2) { 512 } else { 1024 };
        byzantine_deliveries(&mut rng, or, n, &mut batch);
    }
    // Z6: compare the verifier's HashToPoint (read-only hook wrapper) with the reference's on ground
    // salts and edge-length messages; a disagreement is turned into a triple on which the verdicts differ
    for g in 0..6 {
        let n = if rng.chance(2, 3) { 512 } else { 1024 };
        let p = codec::params(n);
        let msg = if g < 4 { let l = rng.usize_below(16); rng.bytes(l) } else { world::message(&mut rng) };
        let (salt, rej) = if g < 4 { byz::grind_salt(&mut rng, &msg, n, 4000) } else { (rng.bytes(40), 0) };
        let mut sm = salt.clone();
        sm.extend_from_slice(&msg);
        st.inc("z6.hash_points_compared");
        if rej >= n / 8 {
            st.inc("z6.salts_with_more_than_n_over_8_rejections");
        }
        let imp = match guarded(|| falcon_rust::verif_hooks::hash_to_point(&sm, n)) {
            Ok(v) => v,
            Err(_) => continue, // an unwind here is C03's subject (the same salts reach verify there)
        };
        let refc = crate::reference::specverify::hash_to_point(&sm, n);
        let diff: Vec<usize> = (0..n).filter(|&i| imp.get(i).map(|x| *x as i64) != Some(refc[i])).collect();
        if !diff.is_empty() {
            st.inc("z6.hash_point_disagreements");
            if let Some(tr) = byz::flip_triple(p, &mut rng, &salt, &msg, &diff) {
                batch.push(Delivery { n, target: Target::Verify, bytes: tr.sig, msg: tr.msg, pk: tr.pk, pristine: None, faults: vec![], origin: "Z6-hash-flip".into(), detail: format!("{} ({} rejected samples)", tr.note, rej) });
            }
        }
    }
    while batch.len() < deliveries {
        batch.push(dl::draw(&mut rng, pools, &mixf, &PROFILE));
    }
    // N2 / N3: duplicate some deliveries and shuffle the order
    let dups = batch.len() / 20;
    for _ in 0..dups {
        let i = rng.usize_below(batch.len());
        let mut d = batch[i].clone();
        d.origin = format!("{}+dup", d.origin);
        batch.push(d);
        st.inc("fault.N2");
    }
    for i in (1..batch.len()).rev() {
        let j = rng.usize_below(i + 1);
        batch.swap(i, j);
    }
    st.add("fault.N3", 1);

    let mut seen: BTreeMap<u64, bool> = BTreeMap::new();
    for (i, d) in batch.iter().enumerate() {
        st.evaluations += 1;
        st.steps += 1;
        for f in &d.faults {
            st.inc(&format!("fault.{}", f.kind()));
        }
        let o = d.origin.split('+').take(2).collect::<Vec<_>>().join("+");
        st.inc(&format!("origin.{}", o.replace("+dup", "")));
        let j = judge(or, d);
        let key = hash_bytes(hash_bytes(hash_bytes(d.n as u64, &d.bytes), &d.pk), &d.msg);
        let mut class = class_of(d.n, &j);
        match &j {
            Judgement::Both { real, spec } => {
                st.inc(match (real, spec.accepted()) {
                    (true, true) => "verdicts.accept/accept",
                    (false, false) => "verdicts.reject/reject",
                    (true, false) => "verdicts.accept/reject",
                    (false, true) => "verdicts.reject/accept",
                });
                match spec {
                    Verdict::Accept { norm } | Verdict::RejectNorm { norm } => {
                        let b = codec::params(d.n).bound;
                        let gap = norm - b;
                        st.inc(if gap == 0 {
                            "spec_norm.at_bound"
                        } else if gap == 1 {
                            "spec_norm.bound_plus_1"
                        } else if gap == -1 {
                            "spec_norm.bound_minus_1"
                        } else if gap < 0 {
                            "spec_norm.below"
                        } else if gap < (b / 10) {
                            "spec_norm.above_within_10pct"
                        } else {
                            "spec_norm.far_above"
                        });
                        // non-trivial: the encoding is well-formed, so the verdict is decided by the norm
                        st.distinct.insert(key);
                    }
                    Verdict::RejectEncoding(e) => st.inc(&format!("spec_reject_encoding.{:?}", e)),
                }
                if let Some(prev) = seen.insert(key, *real) {
                    st.inc("redelivered");
                    if prev != *real && class.is_none() {
                        class = Some(format!("verify{} gave two different verdicts for the same triple", d.n));
                    }
                }
            }
            Judgement::NotReached => st.inc("not_reached"),
            Judgement::Unwind => st.inc("skipped.unwind"),
        }
        log.event(&format!("{} {} {:016x} {:?}", i, d.n, key, matches!(j, Judgement::Both { real: true, .. })));
        if run == 0 && i % 61 == 3 {
            st.sample(json!({"delivery": d.summary(), "judgement": format!("{:?}", j)}));
        }
        if let Some(class) = class {
            st.inc("disagreements");
            if !out.violations.iter().any(|v: &Violation| v.class == class) {
                let m = minimise(or, d, &class);
                out.violations.push(Violation {
                    property: PROP,
                    class,
                    detail: format!("{} ({}); {:?}", m.detail, m.origin, j),
                    replay: json!({"kind": "delivery", "delivery": m.to_json()}),
                    run,
                });
            }
        }
    }
    st.log_hash = log.hash;
    out.stats = st;
    out
}

// ---------------------------------------------------------------------------
// deep batch: one verifier process, several threads, different public keys
// ---------------------------------------------------------------------------
//
// verify is a pure function only as long as it keeps nothing between calls. 2-5 baton-scheduled
// threads, each mostly with its own public key, verify honest signatures (under the right key and,
// now and then, under somebody else's) in the instrumented build; every verdict must be SpecVerify's.

fn deep_run(seed: u64, run: u64, pool: &crate::world::KeyPool<V512>) -> RunOutcome {
    use crate::signers::{self, Keys, Op, OpResult, WorldPlan};
    let mut rng = Prng::new(report::run_seed(seed, "C02deep", run));
    let mut out = RunOutcome::default();
    out.stats.inc("runs");
    out.stats.inc("runs.deep_concurrent_verifiers");
    let mut loaded = Vec::new();
    for k in &pool.keys {
        match k.load() {
            Ok(kp) => loaded.push(kp),
            Err(_) => {
                out.stats.inc("harness.pool_key_not_loadable");
                return out;
            }
        }
    }
    let nkeys = loaded.len();
    let spec = SpecVerifier::new(512);
    let p = codec::params(512);
    let hs: Vec<Vec<i64>> = pool.keys.iter().map(|k| codec::pk_decode(p, &k.pk_bytes).unwrap_or_default()).collect();
    let nthreads = 2 + rng.usize_below(4);
    let mut threads = Vec::new();
    let mut expected: Vec<Vec<bool>> = Vec::new();
    for _ in 0..nthreads {
        let home = rng.usize_below(nkeys);
        let mut ops = Vec::new();
        let mut exp = Vec::new();
        for _ in 0..20 + rng.usize_below(40) {
            let k = if rng.chance(5, 6) { home } else { rng.usize_below(nkeys) };
            // the signature's origin: mostly key k itself, sometimes another key (then the verdict is "reject")
            let j = if rng.chance(4, 5) { k } else { rng.usize_below(nkeys) };
            let (m, sg) = rng.pick(&pool.keys[j].sigs).clone();
            let want = match codec::sig_decode(p, &sg) {
                Ok(f) => spec.verify(&m, f.salt, f.body, &hs[k]).accepted(),
                Err(_) => false,
            };
            exp.push(want);
            ops.push(Op::Verify { key: k, msg: m, sig: sg });
        }
        threads.push(ops);
        expected.push(exp);
    }
    let yields: u64 = threads.iter().map(|t| t.len() as u64 * 10).sum();
    let budget = *rng.pick(&[3u64, 10, 30, 100]);
    let mut k = 0u32;
    while k < 30 && (yields >> k) > budget {
        k += 1;
    }
    let plan = WorldPlan { n: 512, key_seeds: Vec::new(), sched_seed: rng.next_u64(), switch_exp: Some(k), boundary: rng.below(257) as u32, threads, align: None };
    let shared: Keys<V512> = std::sync::Arc::new(loaded);
    let (res, sched) = signers::execute::<V512>(&plan, shared);
    if sched.free_running {
        out.stats.inc("inconclusive.schedule_infeasible");
        return out;
    }
    out.stats.steps += sched.steps;
    out.stats.add("deep.yield_points", sched.steps);
    out.stats.add("sched.switches", sched.switches);
    out.stats.add("sched.lock_handoffs", sched.lock_handoffs);
    if sched.switches > 0 {
        out.stats.interleavings.insert(sched.trace_hash);
    }
    'outer: for (t, tr) in res.iter().enumerate() {
        let ops = match tr {
            Ok(o) => o,
            Err(u) => {
                out.violations.push(Violation { property: PROP, class: format!("simulated verifier thread died: {}", u.signature()), detail: format!("deep run {} thread {}", run, t), replay: json!({"kind": "deep-rerun", "deep": true, "seed": seed, "run": run}), run: (1 << 41) + 100 + run });
                break;
            }
        };
        for (i, r) in ops.iter().enumerate() {
            out.stats.evaluations += 1;
            let want = expected[t][i];
            let bad = match r {
                OpResult::Verified(b) if *b == want => None,
                OpResult::Verified(true) => Some("verify512 accepts what the specification rejects while other threads verify under other keys".to_string()),
                OpResult::Verified(false) => Some("verify512 rejects what the specification accepts while other threads verify under other keys".to_string()),
                OpResult::Unwound(u) => Some(format!("verify512 {} (concurrent verifiers)", u.signature())),
                _ => None,
            };
            if let Some(class) = bad {
                out.violations.push(Violation { property: PROP, class, detail: format!("deep run {} thread {} op {}", run, t, i), replay: json!({"kind": "deep-rerun", "deep": true, "seed": seed, "run": run}), run: (1 << 41) + 100 + run });
                break 'outer;
            }
        }
    }
    out
}

/// Cold start: in a process in which the library has not run yet, 2-6 threads make their very first calls
/// side by side - decode a public key and a signature from bytes and verify (aligned starts, function-entry
/// pre-emption). Whatever the library sets up on first use must be complete before anybody uses it.
fn cold_run(seed: u64, run: u64, pool: &crate::world::KeyPool<V512>) -> RunOutcome {
    let mut rng = Prng::new(report::run_seed(seed, "C02cold", run));
    let mut out = RunOutcome::default();
    out.stats.inc("runs");
    out.stats.inc("runs.deep_cold_start");
    let spec = SpecVerifier::new(512);
    let p = codec::params(512);
    let nthreads = 2 + rng.usize_below(5);
    type Item = (Vec<u8>, Vec<u8>, Vec<u8>, bool);
    let mut work: Vec<Vec<Item>> = Vec::new();
    for _ in 0..nthreads {
        let mut items = Vec::new();
        for _ in 0..2 + rng.usize_below(3) {
            let k = rng.pick(&pool.keys);
            let (m, sg) = rng.pick(&k.sigs).clone();
            let want = match (codec::sig_decode(p, &sg), codec::pk_decode(p, &k.pk_bytes)) {
                (Ok(f), Ok(h)) => spec.verify(&m, f.salt, f.body, &h).accepted(),
                _ => false,
            };
            items.push((k.pk_bytes.clone(), m, sg, want));
        }
        work.push(items);
    }
    type Out = Vec<Result<bool, crate::guard::Unwind>>;
    let bodies: Vec<Box<dyn FnOnce(std::rc::Rc<crate::sched::Handle>) -> Out + Send>> = work
        .iter()
        .map(|items| {
            let items = items.clone();
            Box::new(move |h: std::rc::Rc<crate::sched::Handle>| {
                let _deep = crate::deep::install(&h);
                let mut v = Vec::new();
                for (pkb, m, sg, _) in items.iter() {
                    // two operations per item, each with its own aligned start: decoding, then verify
                    h.boundary();
                    let decoded = guarded(|| (V512::pk_from_bytes(pkb), V512::sig_from_bytes(sg)));
                    h.boundary();
                    v.push(match decoded {
                        Ok((Ok(pk), Ok(s))) => guarded(|| V512::verify(m, &s, &pk)),
                        Ok(_) => Ok(false),
                        Err(u) => Err(u),
                    });
                }
                v
            }) as Box<dyn FnOnce(std::rc::Rc<crate::sched::Handle>) -> Out + Send>
        })
        .collect();
    let opts = crate::sched::SchedOpts { align: true, dense_yields: *rng.pick(&[256u32, 1024, 4096, 16384]), dense_exp: *rng.pick(&[1u32, 2, 3, 4]) };
    let (res, sched) = crate::sched::run_threads_opts(rng.next_u64(), Some(*rng.pick(&[3u32, 5, 7])), 64, opts, bodies);
    if sched.free_running {
        out.stats.inc("inconclusive.schedule_infeasible");
        return out;
    }
    out.stats.steps += sched.steps;
    out.stats.add("deep.yield_points", sched.steps);
    out.stats.add("sched.switches", sched.switches);
    out.stats.add("sched.lock_handoffs", sched.lock_handoffs);
    out.stats.add("sched.aligned_starts", sched.aligned_pairs);
    if sched.switches > 0 {
        out.stats.interleavings.insert(sched.trace_hash);
    }
    'outer: for (t, tr) in res.iter().enumerate() {
        let list = match tr {
            Ok(l) => l,
            Err(u) => {
                out.violations.push(Violation { property: PROP, class: format!("simulated verifier thread died: {}", u.signature()), detail: format!("cold run {} thread {}", run, t), replay: json!({"kind": "deep-rerun", "cold": true, "deep": true, "seed": seed, "run": run}), run: (1 << 41) + 5000 + run });
                break;
            }
        };
        for (i, r) in list.iter().enumerate() {
            out.stats.evaluations += 1;
            let want = work[t][i].3;
            let bad = match r {
                Ok(b) if *b == want => None,
                Ok(true) => Some("verify512 accepts what the specification rejects in a process that is just starting to use the library".to_string()),
                Ok(false) => Some("verify512 rejects what the specification accepts in a process that is just starting to use the library".to_string()),
                Err(u) => Some(format!("verify512 {} (first calls of a process)", u.signature())),
            };
            if let Some(class) = bad {
                out.violations.push(Violation { property: PROP, class, detail: format!("cold run {} thread {} call {}", run, t, i), replay: json!({"kind": "deep-rerun", "cold": true, "deep": true, "seed": seed, "run": run}), run: (1 << 41) + 5000 + run });
                break 'outer;
            }
        }
    }
    out
}

/// child process entry: `falcon-sim c02-cold-child <pk hex> <msg hex> <sig hex> <threads>`: the process's
/// very first library calls are `threads` verifications released together by a spin barrier (real
/// parallelism: the one situation the baton scheduler cannot produce is two threads inside the same
/// arithmetic loop at once). Prints the number of threads whose verdict was "reject".
pub fn cold_child_main(args: &[String]) -> i32 {
    let (pk, msg, sig) = match (args.get(0).and_then(|s| crate::rng::unhex(s)), args.get(1).and_then(|s| crate::rng::unhex(s)), args.get(2).and_then(|s| crate::rng::unhex(s))) {
        (Some(a), Some(b), Some(c)) => (a, b, c),
        _ => return 2,
    };
    let threads: usize = args.get(3).and_then(|s| s.parse().ok()).unwrap_or(16);
    let go = std::sync::Arc::new(std::sync::atomic::AtomicBool::new(false));
    let ready = std::sync::Arc::new(std::sync::atomic::AtomicUsize::new(0));
    let hs: Vec<_> = (0..threads)
        .map(|_| {
            let (pk, msg, sig, go, ready) = (pk.clone(), msg.clone(), sig.clone(), go.clone(), ready.clone());
            std::thread::spawn(move || {
                ready.fetch_add(1, std::sync::atomic::Ordering::SeqCst);
                while !go.load(std::sync::atomic::Ordering::Acquire) {
                    std::hint::spin_loop();
                }
                guarded(|| match (V512::pk_from_bytes(&pk), V512::sig_from_bytes(&sig)) {
                    (Ok(k), Ok(s)) => V512::verify(&msg, &s, &k),
                    _ => false,
                })
            })
        })
        .collect();
    while ready.load(std::sync::atomic::Ordering::SeqCst) < threads {
        std::thread::yield_now();
    }
    go.store(true, std::sync::atomic::Ordering::Release);
    let mut rejected = 0;
    let mut unwound = 0;
    for h in hs {
        match h.join() {
            Ok(Ok(true)) => {}
            Ok(Ok(false)) => rejected += 1,
            _ => unwound += 1,
        }
    }
    println!("COLD rejected={} unwound={}", rejected, unwound);
    0
}

/// Real cold starts: `procs` fresh processes, each verifying one honest signature on 16 threads at once.
fn cold_processes(seed: u64, procs: usize, pool: &crate::world::KeyPool<V512>) -> RunOutcome {
    let mut rng = Prng::new(report::run_seed(seed, "C02coldproc", 0));
    let mut out = RunOutcome::default();
    out.stats.inc("runs");
    out.stats.inc("runs.cold_start_processes");
    let exe = match std::env::current_exe() {
        Ok(e) => e,
        Err(_) => return out,
    };
    for i in 0..procs {
        let k = rng.pick(&pool.keys);
        let (m, sg) = rng.pick(&k.sigs).clone();
        let o = std::process::Command::new(&exe)
            .args(["c02-cold-child", &crate::rng::hex(&k.pk_bytes), &crate::rng::hex(&m), &crate::rng::hex(&sg), "16"])
            .stderr(std::process::Stdio::null())
            .output();
        let text = o.map(|o| String::from_utf8_lossy(&o.stdout).to_string()).unwrap_or_default();
        out.stats.evaluations += 16;
        out.stats.inc("fault.P1_fresh_process");
        if let Some(l) = text.lines().find(|l| l.starts_with("COLD ")) {
            if l != "COLD rejected=0 unwound=0" {
                out.violations.push(Violation {
                    property: PROP,
                    class: "verify512 rejects what the specification accepts in a process that is just starting to use the library".into(),
                    detail: format!("fresh process {} of {}, 16 threads verifying one honest signature at once: {}", i, procs, l),
                    replay: json!({"kind": "cold-processes", "probabilistic": true, "seed": seed, "procs": procs}),
                    run: (1 << 41) + 9000,
                });
                break;
            }
        }
    }
    out
}

fn deep_pool(seed: u64) -> crate::world::KeyPool<V512> {
    crate::world::KeyPool::build(report::run_seed(seed, "c02-deep-pool", 0), 6, 4, report::workers())
}

/// entry of the deep binary: `falcon-sim deepruns C02 <tier> <seed> <outfile>`
pub fn deepruns_main(tier: Tier, seed: u64, outfile: &str) -> i32 {
    let w = report::workers();
    let runs = if tier == Tier::Quick { 240u64 } else { 6000 };
    let pool = deep_pool(seed);
    if pool.keys.len() < 6 || pool.keys.iter().any(|k| k.sigs.is_empty()) {
        eprintln!("HARNESS-ERROR: deep key pool could not be built");
        return 2;
    }
    // two thirds warm runs (keys loaded, then threads), one third cold-start runs
    let cold = runs / 2;
    let mut out = report::parallel_runs(runs + cold, w, |run| if run < runs { deep_run(seed, run, &pool) } else { cold_run(seed, run - runs, &pool) });
    for (run, what) in report::take_dead_runs(&mut out.stats) {
        out.violations.push(Violation {
            property: PROP,
            class: format!("run's process died: {}", what),
            detail: format!("deep run {}", run),
            replay: json!({"kind": "deep-rerun", "deep": true, "seed": seed, "run": run.min(runs - 1)}),
            run: (1 << 41) + 100 + run,
        });
    }
    match std::fs::write(outfile, out.to_bytes()) {
        Ok(_) => 0,
        Err(_) => 2,
    }
}

pub fn replay(doc: &Value) -> Option<String> {
    if doc.get("kind").and_then(|k| k.as_str()) == Some("cold-processes") {
        let seed = doc.get("seed")?.as_u64()?;
        let procs = doc.get("procs")?.as_u64()? as usize;
        let pool = deep_pool(seed);
        return cold_processes(seed, procs * 2, &pool).violations.first().map(|v| v.class.clone());
    }
    if doc.get("kind").and_then(|k| k.as_str()) == Some("deep-rerun") {
        let seed = doc.get("seed")?.as_u64()?;
        let run = doc.get("run")?.as_u64()?;
        let pool = deep_pool(seed);
        let cold = doc.get("cold").and_then(|c| c.as_bool()).unwrap_or(false);
        let o = crate::isolate::isolated(|| if cold { cold_run(seed, run, &pool).to_bytes() } else { deep_run(seed, run, &pool).to_bytes() }, crate::isolate::run_timeout_s()).ok()?;
        return RunOutcome::from_bytes(&o)?.violations.first().map(|v| v.class.clone());
    }
    let d = Delivery::from_json(doc.get("delivery")?)?;
    let or = Oracles::new();
    let j = judge(&or, &d);
    let c = class_of(d.n, &j);
    if c.is_none() {
        // verdict-stability class: re-deliver
        let j2 = judge(&or, &d);
        if j != j2 {
            return Some(format!("verify{} gave two different verdicts for the same triple", d.n));
        }
    }
    c
}

pub fn corpus(report: &mut Report) {
    let dir = report::verif_root().join("corpus").join(PROP);
    let mut files: Vec<_> = match std::fs::read_dir(&dir) {
        Ok(rd) => rd.filter_map(|e| e.ok()).map(|e| e.path()).filter(|p| p.extension().map(|x| x == "json").unwrap_or(false)).collect(),
        Err(_) => return,
    };
    files.sort();
    for f in files {
        let doc: Value = match std::fs::read_to_string(&f).ok().and_then(|s| serde_json::from_str(&s).ok()) {
            Some(v) => v,
            None => continue,
        };
        report.stats.inc("corpus.replayed");
        report.stats.evaluations += 1;
        if let Some(class) = replay(&doc) {
            report.violations.push(Violation {
                property: PROP,
                class,
                detail: format!("regression corpus entry {}", f.display()),
                replay: doc.clone(),
                run: 0,
            });
        }
    }
}

pub struct Ctx {
    pub pools: Pools,
    pub or: Oracles,
    pub runs: u64,
    pub per_run: usize,
}

pub fn context(tier: Tier, seed: u64) -> Result<Ctx, String> {
    let w = report::workers();
    let (runs, per_run, k512, k1024) = match tier {
        Tier::Quick => (320u64, 600usize, 12, 4),
        Tier::Thorough => (8000u64, 600usize, 32, 12),
    };
    let pools = Pools::build(report::run_seed(seed, "pool", 0), k512, k1024, 6, w);
    if !pools.usable() {
        return Err("key pool could not be built on the current tree".into());
    }
    Ok(Ctx { pools, or: Oracles::new(), runs, per_run })
}

pub fn runner(tier: Tier, seed: u64) -> Option<(u64, Box<dyn Fn(u64) -> RunOutcome + Sync>)> {
    let ctx = context(tier, seed).ok()?;
    let n = ctx.runs;
    Some((n, Box::new(move |run| one_run(seed, run, &ctx.pools, &ctx.or, ctx.per_run))))
}

pub fn rerun(tier: Tier, seed: u64, run: u64) -> Option<RunOutcome> {
    let ctx = context(tier, seed).ok()?;
    Some(one_run(seed, run, &ctx.pools, &ctx.or, ctx.per_run))
}

pub fn check(tier: Tier, seed: u64) -> i32 {
    let mut rep = Report::new(PROP, tier, seed);
    let w = report::workers();
    let ctx = match context(tier, seed) {
        Ok(c) => c,
        Err(e) => {
            eprintln!("HARNESS-ERROR: {}", e);
            return 2;
        }
    };
    corpus(&mut rep);
    let out = report::parallel_runs(ctx.runs, w, |run| one_run(seed, run, &ctx.pools, &ctx.or, ctx.per_run));
    rep.absorb(out);
    // real cold starts (fresh processes whose first calls are 16 simultaneous verifications)
    {
        let procs = if tier == Tier::Quick { 48 } else { 600 };
        let o = cold_processes(seed, procs, &ctx.pools.p512);
        rep.absorb(o);
    }
    match crate::props::run_deep_batch(PROP, tier, seed) {
        Ok(Some(o)) => rep.absorb(o),
        Ok(None) => {
            rep.stats.notes.insert("NOTE: no instrumented (deep) build available; the concurrent-verifiers batch was skipped".into());
        }
        Err(e) => {
            eprintln!("HARNESS-ERROR: {}", e);
            return 2;
        }
    }
    rep.rule = "a case is one (msg, sig, pk) triple delivered to a verifier node: fresh honest signatures, the same through bit flips / overwrites / splices / torn writes of signature or key, Byzantine exact-norm triples (Z1: norm = T chosen at, one below and one above floor(beta^2) of either variant, optionally with an s1 coordinate at +-6144), non-canonical re-encodings of those (Z2: negative zero, padding bit, 256/512/1024 extra unary zeros), grammar-aware crafted bodies, plus duplicated and reordered deliveries, cross-variant pairs (Z7), and a deep batch (instrumented build) in which 2-5 baton-scheduled threads, each mostly with its own public key, verify honest signatures under the right and under other keys, every verdict compared with SpecVerify's (plus 48 fresh processes whose first library calls are 16 real threads verifying one honest signature at once; a third of the deep runs are cold starts: the threads' first calls are the first calls of the process, side by side); non-trivial = both inputs decode and the compressed part is well-formed, so the verdict is decided by the norm test; distinct = distinct triples".into();
    rep.assumptions = vec![
        "SpecVerify (sim/src/reference/specverify.rs) implements Algorithms 16/3/18 of the specification; SHAKE-256 comes from the sha3 crate (trusted, cross-checked against PQClean's Keccak by C16)".into(),
        "public-key fields >= q, if the decoder accepts them, are reduced mod q on the reference side".into(),
        "a triple on which the node unwinds is not judged here (C03 reports it)".into(),
    ];
    rep.components = json!({
        "real": ["Signature::from_bytes", "PublicKey::from_bytes", "verify", "keygen+sign (honest traffic)"],
        "stub": ["channel with corruption, duplication, reordering", "ambient entropy of signers (simulator stream)"],
        "model": ["SpecVerify reference verifier", "Byzantine prover Z1 and encoder Z2"],
    });
    rep.finish(report::confirm_in_fresh_process)
}
