//! C08 — every signature carries a fresh random salt.
//! (a) simulator-owned entropy: histories of sign calls over {same, different}
//!     message x key x thread under the baton scheduler, every call with its own
//!     uniform stream; invariants over the history of salts.
//! (b) the real OS-seeded generator (no source installed): baton-scheduled
//!     threads and fresh child processes signing one message with one key.
//! Deliberately NOT required: that the salt is "the first 40 bytes of the
//! stream", or that sign is a function of the stream alone.

use crate::entropy::Mode;
use crate::report::{self, Report, RunOutcome, Stats, Tier, Violation};
use crate::rng::{hex, unhex, Prng};
use crate::signers::{self, Keys, Op, OpResult, WorldPlan};
use crate::variant::{Variant, V1024, V512};
use crate::world::{self, KeyPool};
use serde_json::{json, Value};
use std::collections::BTreeMap;
use std::sync::Arc;

pub const PROP: &str = "C08";

/// tag layout of a salt blob: (run << 20 | thread << 12 | op, salt || sig-body-hash || ctx)
fn salt_of(sig: &[u8]) -> Option<[u8; 40]> {
    if sig.len() < 41 {
        return None;
    }
    sig[1..41].try_into().ok()
}

fn draw_plan_a(rng: &mut Prng, n: usize, seeds: Vec<[u8; 32]>) -> WorldPlan {
    let nthreads = 1 + rng.usize_below(6);
    let common_msg = world::message(rng);
    let mut threads = Vec::new();
    for _ in 0..nthreads {
        let nops = 4 + rng.usize_below(12);
        let mut ops = Vec::new();
        for _ in 0..nops {
            let msg = match rng.below(4) {
                0 | 1 => common_msg.clone(), // same message on every thread and key
                2 => vec![],
                _ => world::message(rng),
            };
            ops.push(Op::Sign {
                key: rng.usize_below(seeds.len()),
                msg,
                stream: rng.next_u64(),
                mode: Some(Mode::Uniform),
                norm_rejects: if rng.chance(1, 6) { 1 + rng.below(2) as u8 } else { 0 },
                compress_fails: if rng.chance(1, 6) { 1 + rng.below(2) as u8 } else { 0 },
            });
        }
        threads.push(ops);
    }
    // entropy fault E7: calls on one message and key whose generator outputs agree on their first
    // 32 or 64 bits and differ afterwards - a salt derived from that little entropy repeats
    if rng.chance(1, 2) {
        let prefix = rng.next_u64();
        let bytes = if rng.chance(1, 2) { 4 } else { 8 };
        let key = rng.usize_below(seeds.len());
        for _ in 0..2 + rng.usize_below(2) {
            let t = rng.usize_below(threads.len());
            let at = rng.usize_below(threads[t].len() + 1);
            threads[t].insert(
                at,
                Op::Sign { key, msg: common_msg.clone(), stream: rng.next_u64(), mode: Some(Mode::SharedPrefix { prefix, bytes }), norm_rejects: 0, compress_fails: 0 },
            );
        }
    }
    WorldPlan {
        n,
        key_seeds: seeds,
        sched_seed: rng.next_u64(),
        switch_exp: if rng.chance(1, 6) { None } else { Some(*rng.pick(&[5u32, 7, 9, 10, 11, 12, 14])) },
        boundary: rng.below(257) as u32,
        threads,
        align: None,
    }
}

/// execute a plan and return the salts with their context
fn collect<V: Variant>(plan: &WorldPlan, keys: Keys<V>, run: u64, st: &mut Stats) -> Result<Vec<(u64, [u8; 40], Vec<u8>)>, (String, String)> {
    let (res, sched) = signers::execute::<V>(plan, keys);
    if sched.free_running {
        st.inc("inconclusive.schedule_infeasible");
        return Ok(Vec::new());
    }
    st.steps += sched.steps;
    st.add("sched.switches", sched.switches);
    st.add("sched.lock_handoffs", sched.lock_handoffs);
    if sched.switches > 0 {
        st.interleavings.insert(sched.trace_hash);
    }
    st.overlap_states.extend(sched.overlap_states.iter().cloned());
    let mut out = Vec::new();
    for (t, tr) in res.iter().enumerate() {
        let ops = match tr {
            Ok(o) => o,
            Err(u) => return Err((format!("simulated thread died: {}", u.signature()), format!("thread {}", t))),
        };
        for (i, r) in ops.iter().enumerate() {
            st.evaluations += 1;
            match r {
                OpResult::Sig { bytes, preempted, trace } => {
                    if *preempted > 0 {
                        st.inc("sign.preempted_mid_call");
                    }
                    for (k, v) in trace.landed.iter() {
                        st.add(&format!("fault_landed.{}", k), *v);
                    }
                    match salt_of(bytes) {
                        Some(s) => out.push(((run << 20) | ((t as u64) << 12) | i as u64, s, bytes[41..].to_vec())),
                        None => return Err((format!("signature{} too short to carry a salt", V::N), format!("thread {} op {}", t, i))),
                    }
                }
                // a sign that unwinds or stalls is C01's subject; here it only means "no salt observed"
                OpResult::Unwound(_) => st.inc("skipped.sign_unwound"),
                _ => {}
            }
        }
    }
    Ok(out)
}

fn run_a<V: Variant>(seed: u64, run: u64, pool: &KeyPool<V>) -> RunOutcome {
    let mut rng = Prng::new(report::run_seed(seed, PROP, run));
    let mut st = Stats::default();
    let mut out = RunOutcome::default();
    let mut loaded = Vec::new();
    for k in &pool.keys {
        match k.load() {
            Ok(kp) => loaded.push(kp),
            Err(e) => {
                out.stats.inc("harness.pool_key_not_loadable");
                out.stats.notes.insert(format!("pool key could not be decoded: {}", e));
                return out;
            }
        }
    }
    let keysets: Keys<V> = Arc::new(loaded);
    st.inc("runs");
    st.inc("runs.a_simulated_entropy");
    let plan = draw_plan_a(&mut rng, V::N, pool.keys.iter().map(|k| k.seed).collect());
    match collect::<V>(&plan, keysets.clone(), run, &mut st) {
        Err((class, detail)) => out.violations.push(Violation {
            property: PROP,
            class,
            detail,
            replay: plan.to_json(),
            run,
        }),
        Ok(salts) => {
            // same (message, key), different stream => different salt and different s
            let mut by_ctx: BTreeMap<(usize, Vec<u8>), Vec<usize>> = BTreeMap::new();
            let mut idx = 0usize;
            for (t, ops) in plan.threads.iter().enumerate() {
                for (i, op) in ops.iter().enumerate() {
                    if let Op::Sign { key, msg, .. } = op {
                        let tag = (run << 20) | ((t as u64) << 12) | i as u64;
                        if idx < salts.len() && salts[idx].0 == tag {
                            by_ctx.entry((*key, msg.clone())).or_default().push(idx);
                            idx += 1;
                        }
                    }
                }
            }
            for ((_k, _m), v) in by_ctx.iter() {
                if v.len() >= 2 {
                    st.inc("contexts.same_message_same_key");
                }
                for a in 0..v.len() {
                    for b in a + 1..v.len() {
                        if salts[v[a]].1 == salts[v[b]].1 && !out.violations.iter().any(|x| x.class.starts_with("two sign calls with the same message and key")) {
                            out.violations.push(Violation {
                                property: PROP,
                                class: format!("two sign calls with the same message and key but different entropy returned the same salt (variant {})", V::N),
                                detail: format!("tags {:x} {:x} salt {}", salts[v[a]].0, salts[v[b]].0, hex(&salts[v[a]].1)),
                                replay: minimise_pair(&plan, salts[v[a]].0, salts[v[b]].0).to_json(),
                                run,
                            });
                        }
                    }
                }
            }
            for (tag, s, body) in salts {
                let mut blob = s.to_vec();
                blob.extend_from_slice(&crate::rng::hash_bytes(0, &body).to_le_bytes());
                st.blobs.push((tag, blob));
                st.distinct.insert(crate::rng::hash_bytes(0, &s));
            }
        }
    }
    if run == 0 {
        let mut j = plan.to_json();
        if let Some(t) = j.get_mut("threads").and_then(|t| t.as_array_mut()) {
            t.truncate(2);
            for th in t.iter_mut() {
                if let Some(o) = th.as_array_mut() {
                    o.truncate(2);
                }
            }
        }
        st.sample(j);
    }
    out.stats = st;
    out
}

/// keep only the two operations that collided (same thread order)
fn minimise_pair(plan: &WorldPlan, a: u64, b: u64) -> WorldPlan {
    let mut p = plan.clone();
    for (t, ops) in p.threads.iter_mut().enumerate() {
        let keep: Vec<Op> = ops
            .iter()
            .enumerate()
            .filter(|(i, _)| {
                let tag = ((t as u64) << 12) | *i as u64;
                tag == (a & 0xfffff) || tag == (b & 0xfffff)
            })
            .map(|(_, o)| o.clone())
            .collect();
        *ops = keep;
    }
    p.threads.retain(|t| !t.is_empty());
    p
}

// ---- (b) real generator -----------------------------------------------------

fn plan_b(n: usize, key_seed: [u8; 32], threads: usize, calls: usize, sched_seed: u64) -> WorldPlan {
    let msg = b"the same message, signed again and again".to_vec();
    WorldPlan {
        n,
        key_seeds: vec![key_seed],
        sched_seed,
        switch_exp: Some(9),
        boundary: 128,
        threads: (0..threads)
            .map(|_| {
                (0..calls)
                    .map(|_| Op::Sign {
                        key: 0,
                        msg: msg.clone(),
                        stream: 0,
                        mode: None,
                        norm_rejects: 0,
                        compress_fails: 0,
                    })
                    .collect()
            })
            .collect(),
        align: None,
    }
}

/// child process entry: `falcon-sim c08-child <n> <key_seed_hex> <calls>` prints one salt per line
pub fn child_main(args: &[String]) -> i32 {
    let n: usize = args.get(0).and_then(|s| s.parse().ok()).unwrap_or(512);
    let seed: [u8; 32] = match args.get(1).and_then(|s| unhex(s)).and_then(|v| v.try_into().ok()) {
        Some(s) => s,
        None => return 2,
    };
    let calls: usize = args.get(2).and_then(|s| s.parse().ok()).unwrap_or(16);
    // what a small program does: generate the key from its seed, then sign - all on the main
    // thread of a fresh process, so that the seeded key generation is the first thing that
    // touches any generator on this thread
    fn go<V: Variant>(seed: [u8; 32], calls: usize) -> Option<Vec<[u8; 40]>> {
        let (sk, _pk) = world::keygen_sim::<V>(seed, None, None).0.ok()?;
        let msg = b"the same message, signed again and again".to_vec();
        let real = world::SignPlan { stream_seed: 0, mode: None, fire: vec![] };
        let mut out = Vec::new();
        for _ in 0..calls {
            let sig = world::sign_sim::<V>(&sk, &msg, &real, None).0.ok()?;
            out.push(salt_of(&V::sig_to_bytes(&sig))?);
        }
        Some(out)
    }
    let r = if n == 512 { go::<V512>(seed, calls) } else { go::<V1024>(seed, calls) };
    match r {
        Some(salts) => {
            for s in salts {
                println!("SALT {}", hex(&s));
            }
            0
        }
        None => 2,
    }
}

/// length of the single-thread long history of sub-check (b)
fn long_calls(n: usize, calls: usize) -> usize {
    // quick (calls = 64): 3000 / 1500; thorough (calls = 1000): 20000 / 8000
    let base = if calls >= 1000 { 20000 } else { 3000 };
    if n == 512 {
        base
    } else {
        base * 2 / 5 + 300
    }
}

/// threads phase, then (on this process's main thread) a clone phase - the key
/// has signed before, is cloned, and original and copy sign alternately - and a
/// long single-thread history on one message
fn run_b_inproc<V: Variant>(plan: &WorldPlan, long: usize, st: &mut Stats) -> Result<Vec<(String, [u8; 40])>, (String, String)> {
    let keys = signers::regenerate_keys::<V>(plan).map_err(|u| (format!("keygen{} failed: {}", V::N, u.signature()), String::new()))?;
    let salts = collect::<V>(plan, keys.clone(), 0, st)?;
    let mut all: Vec<(String, [u8; 40])> = salts.into_iter().map(|(tag, s, _)| (format!("thread{}-call{}", (tag >> 12) & 0xff, tag & 0xfff), s)).collect();
    st.add("b.thread_salts", all.len() as u64);
    let msg = b"the same message, signed again and again".to_vec();
    let real = world::SignPlan { stream_seed: 0, mode: None, fire: vec![] };
    let mut sign = |k: &V::Sk, label: String, all: &mut Vec<(String, [u8; 40])>| {
        if let (Ok(sig), _) = world::sign_sim::<V>(k, &msg, &real, None) {
            if let Some(s) = salt_of(&V::sig_to_bytes(&sig)) {
                all.push((label, s));
            }
        }
    };
    let sk = &keys[0].0;
    sign(sk, "clone-phase-before".into(), &mut all);
    let copy = sk.clone();
    for i in 0..8 {
        sign(sk, format!("clone-phase-original-{}", i), &mut all);
        sign(&copy, format!("clone-phase-copy-{}", i), &mut all);
    }
    st.add("b.clone_phase_salts", 17);
    for i in 0..long {
        sign(sk, format!("long-history-{}", i), &mut all);
    }
    st.add("b.long_history_salts", long as u64);
    // many short-lived OS threads, one after another, each signing once with the shared key
    let nthreads = if long >= 10000 { 1200 } else { 200 };
    let shared = Arc::new(sk.clone());
    for i in 0..nthreads {
        let k = shared.clone();
        let m = msg.clone();
        let r = std::thread::spawn(move || {
            let real = world::SignPlan { stream_seed: 0, mode: None, fire: vec![] };
            world::sign_sim::<V>(&k, &m, &real, None).0.ok().and_then(|sig| salt_of(&V::sig_to_bytes(&sig)))
        })
        .join();
        if let Ok(Some(s)) = r {
            all.push((format!("short-lived-thread-{}", i), s));
        }
    }
    st.add("b.short_lived_thread_salts", nthreads as u64);
    Ok(all)
}

fn run_b(n: usize, key_seed: [u8; 32], threads: usize, calls: usize, procs: usize, pcalls: usize, st: &mut Stats) -> Result<Vec<(String, [u8; 40])>, (String, String)> {
    let plan = plan_b(n, key_seed, threads, calls, 0xb);
    let long = long_calls(n, calls);
    let mut all = if n == 512 { run_b_inproc::<V512>(&plan, long, st)? } else { run_b_inproc::<V1024>(&plan, long, st)? };
    // fresh processes (P1)
    let exe = std::env::current_exe().map_err(|e| ("harness: no current exe".to_string(), e.to_string()))?;
    let children: Vec<_> = (0..procs)
        .map(|_| {
            std::process::Command::new(&exe)
                .args(["c08-child", &n.to_string(), &hex(&key_seed), &pcalls.to_string()])
                .stdout(std::process::Stdio::piped())
                .stderr(std::process::Stdio::null())
                .spawn()
        })
        .collect();
    for (pi, c) in children.into_iter().enumerate() {
        let out = c.and_then(|c| c.wait_with_output()).map_err(|e| ("harness: child process failed".to_string(), e.to_string()))?;
        st.inc("fault.P1_fresh_process");
        let text = String::from_utf8_lossy(&out.stdout);
        let mut k = 0;
        for l in text.lines() {
            if let Some(h) = l.strip_prefix("SALT ") {
                if let Some(s) = unhex(h).and_then(|v| <[u8; 40]>::try_from(v).ok()) {
                    all.push((format!("process{}-call{}", pi, k), s));
                    k += 1;
                }
            }
        }
        if k == 0 {
            return Err(("harness: child process produced no salts".into(), String::new()));
        }
        st.add("b.process_salts", k as u64);
    }
    Ok(all)
}

// ---- (b') real generator, deep batch -----------------------------------------
//
// 2-4 threads sign with one shared key under the real generator in the instrumented build:
// pre-emption at function entries, aligned starts (two sign calls begin side by side and their first
// steps are interleaved finely). A generator whose per-call state is claimed from shared state by a
// racy read-modify-write hands the same state to two calls that start together.

fn deep_run(seed: u64, run: u64, shared: &world::KeyEntry<V512>) -> RunOutcome {
    let mut rng = Prng::new(report::run_seed(seed, "C08deep", run));
    let mut out = RunOutcome::default();
    let kp = match shared.load() {
        Ok(kp) => kp,
        Err(_) => {
            out.stats.inc("harness.pool_key_not_loadable");
            return out;
        }
    };
    let keys: Keys<V512> = Arc::new(vec![kp]);
    let nthreads = 2 + rng.usize_below(3);
    let calls = 3 + rng.usize_below(4);
    let msg = b"the same message, signed again and again".to_vec();
    let threads: Vec<Vec<Op>> = (0..nthreads).map(|_| (0..calls).map(|_| Op::Sign { key: 0, msg: msg.clone(), stream: 0, mode: None, norm_rejects: 0, compress_fails: 0 }).collect()).collect();
    let plan = WorldPlan {
        n: 512,
        key_seeds: vec![shared.seed],
        sched_seed: rng.next_u64(),
        switch_exp: Some(*rng.pick(&[8u32, 10, 12])),
        boundary: 64,
        threads,
        align: if rng.chance(5, 6) { Some((*rng.pick(&[16u32, 64, 256, 1024]), *rng.pick(&[1u32, 2, 3]))) } else { None },
    };
    let mut st = Stats::default();
    st.inc("runs");
    st.inc("runs.b_deep_real_generator");
    match collect::<V512>(&plan, keys, 0, &mut st) {
        Err((class, detail)) => {
            let mut doc = plan.to_json();
            doc.as_object_mut().unwrap().insert("deep".into(), json!(true));
            out.violations.push(Violation { property: PROP, class, detail, replay: doc, run: (1 << 41) + 100 + run });
        }
        Ok(salts) => {
            st.add("b.deep_salts", salts.len() as u64);
            let labelled: Vec<(String, [u8; 40])> = salts.iter().map(|(tag, s, _)| (format!("thread{}-call{}", (tag >> 12) & 0xff, tag & 0xfff), *s)).collect();
            for (_, s) in &labelled {
                st.distinct.insert(crate::rng::hash_bytes(8, s));
            }
            if let Some((class, detail)) = judge_salts(&labelled, "real generator, calls starting side by side") {
                let mut doc = plan.to_json();
                doc.as_object_mut().unwrap().insert("deep".into(), json!(true));
                doc.as_object_mut().unwrap().insert("probabilistic".into(), json!(true));
                out.violations.push(Violation { property: PROP, class, detail: format!("deep run {}: {}", run, detail), replay: doc, run: (1 << 41) + 100 + run });
            }
        }
    }
    out.stats = st;
    out
}

/// entry of the deep binary: `falcon-sim deepruns C08 <tier> <seed> <outfile>`
pub fn deepruns_main(tier: Tier, seed: u64, outfile: &str) -> i32 {
    let w = report::workers();
    let runs = if tier == Tier::Quick { 48u64 } else { 1500 };
    let pool: KeyPool<V512> = KeyPool::build(report::run_seed(seed, "c08-deep-pool", 0), 1, 0, w);
    if pool.keys.is_empty() {
        eprintln!("HARNESS-ERROR: deep key pool could not be built");
        return 2;
    }
    let mut out = report::parallel_runs(runs, w, |run| deep_run(seed, run, &pool.keys[0]));
    for (run, what) in report::take_dead_runs(&mut out.stats) {
        out.violations.push(Violation {
            property: PROP,
            class: format!("run's process died: {}", what),
            detail: format!("deep run {}", run),
            replay: json!({"kind": "rerun"}),
            run: (1 << 41) + 100 + run,
        });
    }
    match std::fs::write(outfile, out.to_bytes()) {
        Ok(_) => 0,
        Err(_) => 2,
    }
}

/// duplicates / constant bytes over a list of labelled salts
fn judge_salts(all: &[(String, [u8; 40])], what: &str) -> Option<(String, String)> {
    let mut seen: BTreeMap<[u8; 40], &str> = BTreeMap::new();
    for (label, s) in all {
        if let Some(prev) = seen.insert(*s, label) {
            return Some((format!("salt repeated ({})", what), format!("{} and {}: {}", prev, label, hex(s))));
        }
    }
    if all.len() >= 32 {
        for pos in 0..40 {
            if all.iter().all(|(_, s)| s[pos] == all[0].1[pos]) {
                return Some((format!("salt byte position constant ({})", what), format!("byte {} is always {:#04x} over {} salts", pos, all[0].1[pos], all.len())));
            }
        }
    }
    None
}

pub fn replay(doc: &Value) -> Option<String> {
    match doc.get("kind")?.as_str()? {
        "world" => {
            let plan = WorldPlan::from_json(doc)?;
            let mut st = Stats::default();
            let salts = if plan.n == 512 {
                let k = signers::regenerate_keys::<V512>(&plan).ok()?;
                collect::<V512>(&plan, k, 0, &mut st)
            } else {
                let k = signers::regenerate_keys::<V1024>(&plan).ok()?;
                collect::<V1024>(&plan, k, 0, &mut st)
            };
            match salts {
                Err((c, _)) => Some(c),
                Ok(s) => {
                    // a replayed (minimised) plan holds the colliding calls only
                    let expect = doc.get("violation").and_then(|v| v.as_str()).unwrap_or("");
                    let labelled: Vec<(String, [u8; 40])> = s.iter().map(|(t, s, _)| (format!("{:x}", t), *s)).collect();
                    if judge_salts(&labelled, "x").map(|c| c.0.starts_with("salt repeated")).unwrap_or(false) {
                        if expect.starts_with("two sign calls") || expect.starts_with("salt repeated") {
                            Some(expect.to_string())
                        } else {
                            Some("salt repeated (simulated entropy, whole batch)".to_string())
                        }
                    } else {
                        None
                    }
                }
            }
        }
        "real_generator" => {
            let n = doc.get("n")?.as_u64()? as usize;
            let seed: [u8; 32] = unhex(doc.get("key_seed_hex")?.as_str()?)?.try_into().ok()?;
            let mut st = Stats::default();
            let all = run_b(n, seed, doc.get("threads")?.as_u64()? as usize, doc.get("calls")?.as_u64()? as usize, doc.get("procs")?.as_u64()? as usize, doc.get("pcalls")?.as_u64()? as usize, &mut st).ok()?;
            judge_salts(&all, "real generator").map(|c| c.0)
        }
        "real_generator_turns" => {
            let seed = doc.get("seed")?.as_u64()?;
            let ctx = context(Tier::Quick, seed).ok()?;
            let o = crate::isolate::isolated(|| run_b_mixed(&ctx, seed).to_bytes(), crate::isolate::run_timeout_s()).ok()?;
            RunOutcome::from_bytes(&o)?.violations.first().map(|v| v.class.clone())
        }
        "real_generator_volume" => {
            // not bit-replayable (real entropy): the batch is repeated and judged again
            let seed = doc.get("seed")?.as_u64()?;
            let tier = if doc.get("tier")?.as_str()? == "thorough" { Tier::Thorough } else { Tier::Quick };
            let ctx = context(tier, seed).ok()?;
            let na = ctx.runs512 + ctx.runs1024 + 3;
            let out = report::parallel_runs(ctx.vol.0, report::workers(), |run| dispatch(&ctx, seed, na + run));
            let mut rep = Report::new(PROP, tier, seed);
            rep.absorb(out);
            let vol: Vec<_> = std::mem::take(&mut rep.stats.blobs).into_iter().filter(|(t, _)| *t >= VOL_TAG && *t < (1 << 62)).collect();
            judge_volume(&vol).0.map(|c| c.0)
        }
        "salt_bits" => {
            // statistical verdict over a whole batch: recompute it
            let seed = doc.get("seed")?.as_u64()?;
            let tier = if doc.get("tier")?.as_str()? == "thorough" { Tier::Thorough } else { Tier::Quick };
            let mut rep = Report::new(PROP, tier, seed);
            batch_a(&mut rep, tier, seed)?;
            evaluate_a(&mut rep);
            let want = doc.get("violation")?.as_str()?;
            rep.violations.iter().find(|v| v.class == want).map(|v| v.class.clone())
        }
        _ => None,
    }
}

pub struct Ctx {
    pub p512: KeyPool<V512>,
    pub p1024: KeyPool<V1024>,
    pub runs512: u64,
    pub runs1024: u64,
    /// (threads, calls, processes, calls per process) of sub-check (b)
    pub b: (usize, usize, usize, usize),
    pub key_seed_b: [u8; 32],
    /// (processes, calls per process) of the volume batch under the real generator
    pub vol: (u64, usize),
}

pub fn context(tier: Tier, seed: u64) -> Result<Ctx, String> {
    let w = report::workers();
    let (runs512, runs1024, b, vol) = match tier {
        Tier::Quick => (260u64, 60u64, (8usize, 64usize, 4usize, 16usize), (16u64, 12_500usize)),
        Tier::Thorough => (12000u64, 3000u64, (8, 1000, 16, 125), (64, 50_000)),
    };
    let pseed = report::run_seed(seed, "pool", 0);
    let p512: KeyPool<V512> = KeyPool::build(pseed, 2, 0, w);
    let p1024: KeyPool<V1024> = KeyPool::build(pseed ^ 0x1024, 2, 0, w);
    if p512.keys.len() < 2 || p1024.keys.len() < 2 {
        return Err("key pool could not be built on the current tree".into());
    }
    let mut rng = Prng::new(report::run_seed(seed, "C08b", 0));
    Ok(Ctx { p512, p1024, runs512, runs1024, b, key_seed_b: rng.seed32(), vol })
}

/// one run of sub-check (b): returns the observed salts as blobs, judged inside the run
fn run_b_outcome(ctx: &Ctx, which: u64) -> RunOutcome {
    let n = if which == 0 { 512 } else { 1024 };
    let (threads, calls, procs, pcalls) = ctx.b;
    let (t, c, p, pc) = if n == 512 { (threads, calls, procs, pcalls) } else { (4, calls / 4, 2, pcalls / 2) };
    let mut out = RunOutcome::default();
    let mut st = Stats::default();
    st.inc("runs");
    st.inc("runs.b_real_generator");
    let doc = json!({"kind": "real_generator", "probabilistic": true, "n": n, "key_seed_hex": hex(&ctx.key_seed_b), "threads": t, "calls": c, "procs": p, "pcalls": pc});
    match run_b(n, ctx.key_seed_b, t, c, p, pc, &mut st) {
        Err((class, detail)) => {
            if class.starts_with("harness") {
                st.inc("harness.b_failed");
                st.notes.insert(format!("{} {}", class, detail));
            } else {
                out.violations.push(Violation { property: PROP, class, detail, replay: doc.clone(), run: (1 << 40) + which });
            }
        }
        Ok(all) => {
            for (_, s) in &all {
                st.distinct.insert(crate::rng::hash_bytes(7, s));
            }
            if let Some((class, detail)) = judge_salts(&all, "real generator") {
                let mut d = doc.clone();
                d.as_object_mut().unwrap().insert("observed_salts".into(), json!(all.iter().take(64).map(|(l, s)| format!("{} {}", l, hex(s))).collect::<Vec<_>>()));
                out.violations.push(Violation { property: PROP, class, detail, replay: d, run: (1 << 40) + which });
            }
            st.sample(json!({"real_generator_salt_sample": all.iter().take(3).map(|(l, s)| format!("{} {}", l, hex(s))).collect::<Vec<_>>()}));
        }
    }
    out.stats = st;
    out
}

/// sub-check (b), one more run: two Falcon-512 keys and two Falcon-1024 keys take turns on ONE thread
/// (this process's main thread, then a fresh thread) under the real generator, on one message. A
/// generator kept per variant, per key or per "current key" restarts or coincides exactly when the
/// caller switches back and forth.
fn run_b_mixed(ctx: &Ctx, seed: u64) -> RunOutcome {
    let mut out = RunOutcome::default();
    let mut st = Stats::default();
    st.inc("runs");
    st.inc("runs.b_alternating_keys_and_variants");
    let load512 = |i: usize| ctx.p512.keys[i % ctx.p512.keys.len()].load();
    let load1024 = |i: usize| ctx.p1024.keys[i % ctx.p1024.keys.len()].load();
    let (a, b, c, d) = match (load512(0), load512(1), load1024(0), load1024(1)) {
        (Ok(a), Ok(b), Ok(c), Ok(d)) => (a.0, b.0, c.0, d.0),
        _ => {
            st.inc("harness.pool_key_not_loadable");
            out.stats = st;
            return out;
        }
    };
    let msg = b"the same message, signed again and again".to_vec();
    let turns = |tag: &str, order_seed: u64, all: &mut Vec<(String, [u8; 40])>| {
        let real = world::SignPlan { stream_seed: 0, mode: None, fire: vec![] };
        let mut rng = Prng::new(order_seed);
        // fixed opening (every key once, the first one again, 512 and 1024 alternating), then random turns
        let mut order: Vec<usize> = vec![0, 2, 0, 1, 1, 0, 3, 2, 0, 2];
        for _ in 0..70 {
            order.push(rng.usize_below(4));
        }
        for (i, k) in order.iter().enumerate() {
            // now and then a secret key object dies on this thread between two signatures: a clone, or a
            // key that was only decoded (whatever a destructor tidies up must not be what the next call reads)
            if i % 7 == 3 {
                drop(a.clone());
            }
            if i % 7 == 5 {
                if let Ok(tmp) = V1024::sk_from_bytes(&V1024::sk_to_bytes(&c)) {
                    drop(tmp);
                }
            }
            let salt = match k {
                0 => world::sign_sim::<V512>(&a, &msg, &real, None).0.ok().and_then(|s| salt_of(&V512::sig_to_bytes(&s))),
                1 => world::sign_sim::<V512>(&b, &msg, &real, None).0.ok().and_then(|s| salt_of(&V512::sig_to_bytes(&s))),
                2 => world::sign_sim::<V1024>(&c, &msg, &real, None).0.ok().and_then(|s| salt_of(&V1024::sig_to_bytes(&s))),
                _ => world::sign_sim::<V1024>(&d, &msg, &real, None).0.ok().and_then(|s| salt_of(&V1024::sig_to_bytes(&s))),
            };
            if let Some(s) = salt {
                all.push((format!("{}-turn{}-key{}", tag, i, ["A512", "B512", "C1024", "D1024"][*k]), s));
            }
        }
    };
    let mut all: Vec<(String, [u8; 40])> = Vec::new();
    let os = report::run_seed(seed, "C08turns", 0);
    turns("main-thread", os, &mut all);
    std::thread::scope(|sc| {
        let h = sc.spawn(|| {
            let mut v = Vec::new();
            turns("second-thread", os ^ 1, &mut v);
            v
        });
        if let Ok(v) = h.join() {
            all.extend(v);
        }
    });
    // fork without exec (a pre-fork server): this process has signed; a forked child and the parent go on
    // signing the same message with the same key. A user-space generator that is copied by fork hands
    // out the same bytes on both sides until it is reseeded.
    if std::env::var("VERIF_C08_NO_FORK").is_err() {
        let real = world::SignPlan { stream_seed: 0, mode: None, fire: vec![] };
        let child = crate::isolate::isolated(
            || {
                let mut v = Vec::new();
                for _ in 0..4 {
                    if let Some(s) = world::sign_sim::<V512>(&a, &msg, &real, None).0.ok().and_then(|s| salt_of(&V512::sig_to_bytes(&s))) {
                        v.extend_from_slice(&s);
                    }
                }
                v
            },
            crate::isolate::run_timeout_s(),
        );
        for i in 0..4 {
            if let Some(s) = world::sign_sim::<V512>(&a, &msg, &real, None).0.ok().and_then(|s| salt_of(&V512::sig_to_bytes(&s))) {
                all.push((format!("after-fork-parent-{}", i), s));
            }
        }
        if let Ok(b) = child {
            for (i, c) in b.chunks_exact(40).enumerate() {
                all.push((format!("after-fork-child-{}", i), c.try_into().unwrap()));
            }
            st.inc("fault.P2_fork_without_exec");
        } else {
            st.notes.insert("NOTE: the forked child of the fork-without-exec scenario did not deliver its salts".into());
        }
    }
    st.add("b.alternating_salts", all.len() as u64);
    st.evaluations += all.len() as u64;
    for (_, s) in &all {
        st.distinct.insert(crate::rng::hash_bytes(10, s));
    }
    // parent and forked child first (its own class), then everything together
    let forked: Vec<(String, [u8; 40])> = all.iter().filter(|(l, _)| l.starts_with("after-fork-")).cloned().collect();
    let verdict = judge_salts(&forked, "real generator, parent and forked child").filter(|(c, _)| c.starts_with("salt repeated")).or_else(|| judge_salts(&all, "real generator, keys and variants taking turns on one thread"));
    if let Some((class, detail)) = verdict {
        out.violations.push(Violation {
            property: PROP,
            class,
            detail,
            replay: json!({"kind": "real_generator_turns", "probabilistic": true, "seed": seed, "tier": "quick", "observed_salts": all.iter().take(24).map(|(l, s)| format!("{} {}", l, hex(s))).collect::<Vec<_>>()}),
            run: (1 << 40) + 3,
        });
    }
    out.stats = st;
    out
}

const VOL_TAG: u64 = 1 << 56;

/// one process of the volume batch: `calls` signatures of short messages with one Falcon-512 key
/// under the real generator; the salts go to the parent, which looks for repeats over all processes
/// (a generator with fewer than ~36 bits of entropy per salt repeats itself within a quick batch)
fn run_vol(ctx: &Ctx, which: u64) -> RunOutcome {
    let mut out = RunOutcome::default();
    let mut st = Stats::default();
    st.inc("runs");
    st.inc("runs.b_volume_real_generator");
    let (sk, _pk) = match ctx.p512.keys[0].load() {
        Ok(k) => k,
        Err(e) => {
            st.inc("harness.pool_key_not_loadable");
            st.notes.insert(format!("pool key could not be decoded: {}", e));
            out.stats = st;
            return out;
        }
    };
    let real = world::SignPlan { stream_seed: 0, mode: None, fire: vec![] };
    for i in 0..ctx.vol.1 {
        let msg = [(i & 0xff) as u8, (which & 0xff) as u8];
        if let (Ok(sig), _) = world::sign_sim::<V512>(&sk, &msg[..1 + (i & 1)], &real, None) {
            if let Some(s) = salt_of(&V512::sig_to_bytes(&sig)) {
                st.blobs.push((VOL_TAG | (which << 32) | i as u64, s.to_vec()));
            }
        }
        st.evaluations += 1;
    }
    out.stats = st;
    out
}

/// repeats and bit balance over the salts of the volume batch
fn judge_volume(blobs: &[(u64, Vec<u8>)]) -> (Option<(String, String)>, f64) {
    let mut seen: BTreeMap<&[u8], u64> = BTreeMap::new();
    let mut bits = [0u64; 320];
    for (tag, s) in blobs {
        if let Some(prev) = seen.insert(&s[..], *tag) {
            let label = |t: u64| format!("process {} call {}", (t >> 32) & 0xffffff, t & 0xffff_ffff);
            return (Some(("salt repeated (real generator, volume batch)".to_string(), format!("{} and {}: {} ({} salts seen before the repeat)", label(prev), label(*tag), hex(s), seen.len()))), 0.0);
        }
        for i in 0..320 {
            bits[i] += ((s[i / 8] >> (7 - i % 8)) & 1) as u64;
        }
    }
    let n = blobs.len() as f64;
    let mut worst = 0.0f64;
    if blobs.len() >= 2000 {
        for i in 0..320 {
            let dev = (bits[i] as f64 - n / 2.0).abs() / (n.sqrt() / 2.0);
            if dev > worst {
                worst = dev;
            }
            if dev > 6.5 {
                return (Some(("salt bit position biased or constant (real generator, volume batch)".to_string(), format!("bit {} set in {} of {} salts", i, bits[i], blobs.len()))), worst);
            }
        }
    }
    (None, worst)
}

fn dispatch(ctx: &Ctx, seed: u64, run: u64) -> RunOutcome {
    let na = ctx.runs512 + ctx.runs1024;
    if run < ctx.runs1024 {
        run_a::<V1024>(seed, run, &ctx.p1024)
    } else if run < na {
        run_a::<V512>(seed, run, &ctx.p512)
    } else if run < na + 2 {
        run_b_outcome(ctx, run - na)
    } else if run == na + 2 {
        run_b_mixed(ctx, seed)
    } else {
        run_vol(ctx, run - na - 3)
    }
}

/// only the runs of sub-check (a) are deterministic by construction
pub fn runner(tier: Tier, seed: u64) -> Option<(u64, Box<dyn Fn(u64) -> RunOutcome + Sync>)> {
    let ctx = context(tier, seed).ok()?;
    let n = ctx.runs512 + ctx.runs1024;
    Some((n, Box::new(move |run| dispatch(&ctx, seed, run))))
}

pub fn rerun(tier: Tier, seed: u64, run: u64) -> Option<RunOutcome> {
    let ctx = context(tier, seed).ok()?;
    Some(dispatch(&ctx, seed, run))
}

fn batch_a(rep: &mut Report, tier: Tier, seed: u64) -> Option<()> {
    let w = report::workers();
    let ctx = context(tier, seed).ok()?;
    // sub-check (b) runs are scheduled in the same batch (two extra runs)
    let out = report::parallel_runs(ctx.runs512 + ctx.runs1024 + 3 + ctx.vol.0, w, |run| dispatch(&ctx, seed, run));
    rep.absorb(out);
    // the volume batch is judged here, over all its processes
    let (vol, rest): (Vec<_>, Vec<_>) = std::mem::take(&mut rep.stats.blobs).into_iter().partition(|(t, _)| *t >= VOL_TAG && *t < (1 << 62));
    rep.stats.blobs = rest;
    rep.stats.add("b.volume_salts", vol.len() as u64);
    for (_, s) in vol.iter().step_by(64) {
        rep.stats.distinct.insert(crate::rng::hash_bytes(9, s));
    }
    let (verdict, worst) = judge_volume(&vol);
    rep.extra.insert("b_volume_worst_bit_deviation_sigma".into(), json!((worst * 100.0).round() / 100.0));
    if let Some((class, detail)) = verdict {
        rep.violations.push(Violation {
            property: PROP,
            class,
            detail,
            replay: json!({"kind": "real_generator_volume", "probabilistic": true, "seed": seed, "tier": tier.name()}),
            run: (1 << 40) + 2,
        });
    }
    Some(())
}

/// history invariants over all salts of the batch (simulated entropy)
fn evaluate_a(rep: &mut Report) {
    // (markers of runs whose process died live in the same list with huge tags: leave them)
    let (blobs, rest): (Vec<_>, Vec<_>) = std::mem::take(&mut rep.stats.blobs).into_iter().partition(|(t, _)| *t < (1 << 62));
    rep.stats.blobs = rest;
    let n = blobs.len();
    rep.stats.add("a.salts", n as u64);
    let mut seen: BTreeMap<Vec<u8>, u64> = BTreeMap::new();
    let mut bodies: BTreeMap<Vec<u8>, u64> = BTreeMap::new();
    let mut bits = [0u64; 320];
    let mut first_dup: Option<(u64, u64, Vec<u8>)> = None;
    let mut first_body_dup: Option<(u64, u64)> = None;
    for (tag, blob) in &blobs {
        let salt = blob[..40].to_vec();
        for i in 0..320 {
            bits[i] += ((salt[i / 8] >> (7 - i % 8)) & 1) as u64;
        }
        if let Some(prev) = seen.insert(salt.clone(), *tag) {
            if first_dup.is_none() {
                first_dup = Some((prev, *tag, salt));
            }
        }
        if let Some(prev) = bodies.insert(blob[40..].to_vec(), *tag) {
            if first_body_dup.is_none() {
                first_body_dup = Some((prev, *tag));
            }
        }
    }
    let seed = rep.seed;
    let tier = rep.tier.name();
    if let Some((a, b, s)) = first_dup {
        rep.violations.push(Violation {
            property: PROP,
            class: "salt repeated (simulated entropy, whole batch)".into(),
            detail: format!("runs/threads/ops {:x} and {:x}: {}", a, b, hex(&s)),
            replay: json!({"kind": "salt_bits", "seed": seed, "tier": tier}),
            run: a >> 20,
        });
    }
    if let Some((a, b)) = first_body_dup {
        rep.violations.push(Violation {
            property: PROP,
            class: "two signatures carry the same compressed body (simulated entropy, whole batch)".into(),
            detail: format!("runs/threads/ops {:x} and {:x}", a, b),
            replay: json!({"kind": "salt_bits", "seed": seed, "tier": tier}),
            run: a >> 20,
        });
    }
    if n >= 2000 {
        let tol = 6.3 * (n as f64).sqrt() / 2.0;
        let mut worst = 0.0f64;
        for i in 0..320 {
            let dev = (bits[i] as f64 - n as f64 / 2.0).abs();
            worst = worst.max(dev / ((n as f64).sqrt() / 2.0));
            if dev > tol {
                rep.violations.push(Violation {
                    property: PROP,
                    class: "salt bit position biased or constant (simulated entropy, whole batch)".into(),
                    detail: format!("bit {} set in {} of {} salts (tolerance +-{:.0})", i, bits[i], n, tol),
                    replay: json!({"kind": "salt_bits", "seed": seed, "tier": tier}),
                    run: 0,
                });
                break;
            }
        }
        rep.extra.insert("a_worst_bit_deviation_sigma".into(), json!((worst * 100.0).round() / 100.0));
    } else {
        rep.stats.notes.insert("NOTE: fewer than 2000 salts observed; bit-balance test skipped".into());
    }
}

pub fn check(tier: Tier, seed: u64) -> i32 {
    let mut rep = Report::new(PROP, tier, seed);
    if batch_a(&mut rep, tier, seed).is_none() {
        eprintln!("HARNESS-ERROR: key pool could not be built on the current tree");
        return 2;
    }
    if rep.stats.counters.get("harness.pool_key_not_loadable").copied().unwrap_or(0) > 0 || rep.stats.counters.get("harness.b_failed").copied().unwrap_or(0) > 0 {
        eprintln!("HARNESS-ERROR: {:?}", rep.stats.notes);
        return 2;
    }
    evaluate_a(&mut rep);
    match crate::props::run_deep_batch(PROP, tier, seed) {
        Ok(Some(o)) => rep.absorb(o),
        Ok(None) => {
            rep.stats.notes.insert("NOTE: no instrumented (deep) build available; the side-by-side batch under the real generator was skipped".into());
        }
        Err(e) => {
            eprintln!("HARNESS-ERROR: {}", e);
            return 2;
        }
    }
    rep.rule = "a case is one sign call whose salt (bytes 1..41 of the encoded signature) enters the history: (a) under simulator-owned uniform entropy, 1-6 baton-scheduled threads x 4-15 calls over two shared keys with half of the calls on one common message, some with forced retries, and in half of the runs 2-3 calls on one message and key whose streams agree on their first 32 or 64 bits only (E7); (b) under the real thread_rng, threads x calls, fresh child processes, fresh processes that generate the key from its seed and sign on their main thread, a clone phase (a key that has signed is cloned, original and copy sign alternately), 200 (1200) short-lived threads signing once each, and a long single-thread history (3000 / 1500 calls in quick, 20000 / 8300 in thorough) on one message and one key, a run in which two Falcon-512 and two Falcon-1024 keys take turns on one thread (80 turns on the main thread of a process, 80 on a second thread) and which then forks without exec (parent and child each sign four more times), a volume batch (16 x 12500 signatures in quick, 64 x 50000 in thorough, one process each) whose salts must not repeat over the whole batch, and a deep batch (instrumented build: 2-4 threads x 3-6 calls, pre-emption at function entries, calls starting side by side); every observed salt is non-trivial; distinct = distinct salt values".into();
    rep.assumptions = vec![
        "(a) masks, by construction, a generator that is not the hooked one; (b) exists for that case and is not bit-replayable (it observes real OS entropy); its verdict depends on the values only through collisions (probability < 2^-200)".into(),
        "bit balance: every one of the 320 salt bit positions must be set in N/2 +- 6.3*sqrt(N)/2 of N >= 2000 salts".into(),
        "sign calls that unwind or stall are C01's subject and contribute no salt here".into(),
    ];
    rep.components = json!({
        "real": ["sign", "Signature::to_bytes", "thread_rng (sub-check b)", "std threads, child processes"],
        "stub": ["thread scheduler (baton)", "ambient entropy (sub-check a: simulator stream, hook H1)"],
        "model": [],
    });
    rep.finish(report::confirm_in_fresh_process)
}
