//! C16 — interoperability with the reference implementation. falcon-rust nodes
//! and a PQClean node exchange, over a clean channel and in every direction,
//! public keys, secret keys and signatures (re-framed as the property
//! describes). Both sides' entropy comes from the run seed.

use crate::pq::{self, Peer, Pq1024, Pq512};
use crate::reference::codec;
use crate::report::{self, Report, RunOutcome, Stats, Tier, Violation};
use crate::rng::{hash_bytes, hex, unhex, Prng};
use crate::variant::{Variant, V1024, V512};
use crate::world::{self, SignPlan};
use serde_json::{json, Value};

pub const PROP: &str = "C16";

#[derive(Clone, Debug)]
pub struct Plan {
    pub n: usize,
    pub our_seed: [u8; 32],
    pub peer_seed: u64,
    pub msgs: Vec<Vec<u8>>,
    pub stream: u64,
}

impl Plan {
    fn to_json(&self) -> Value {
        json!({"kind": "exchange", "n": self.n, "our_seed_hex": hex(&self.our_seed), "peer_seed": self.peer_seed,
               "msgs_hex": self.msgs.iter().map(|m| crate::rng::msg_hex(m)).collect::<Vec<_>>(), "stream": self.stream})
    }
    fn from_json(v: &Value) -> Option<Plan> {
        Some(Plan {
            n: v.get("n")?.as_u64()? as usize,
            our_seed: unhex(v.get("our_seed_hex")?.as_str()?)?.try_into().ok()?,
            peer_seed: v.get("peer_seed")?.as_u64()?,
            msgs: v.get("msgs_hex")?.as_array()?.iter().map(|m| crate::rng::msg_unhex(m.as_str()?)).collect::<Option<Vec<_>>>()?,
            stream: v.get("stream")?.as_u64()?,
        })
    }
}

fn execute<V: Variant, P: Peer>(plan: &Plan) -> (Option<(String, String)>, Stats) {
    let mut st = Stats::default();
    let n = V::N;
    let p = codec::params(n);
    let our_header = codec::sig_header(p);
    let fail = |st: Stats, c: String, d: String| (Some((c, d)), st);
    // --- keys on both sides
    let (r, _) = world::keygen_sim::<V>(plan.our_seed, None, None);
    let (osk, opk) = match r {
        Ok(k) => k,
        Err(u) => return fail(st, format!("keygen{} {}", n, u.signature()), String::new()),
    };
    let (osk_b, opk_b) = (V::sk_to_bytes(&osk), V::pk_to_bytes(&opk));
    let (ppk_b, psk_b) = P::keypair(plan.peer_seed);
    st.inc("keypairs.ours");
    st.inc("keypairs.reference");
    // --- import the reference key pair here
    let imp_pk = match crate::guard::guarded(|| V::pk_from_bytes(&ppk_b)) {
        Ok(Ok(k)) => k,
        Ok(Err(e)) => return fail(st, format!("PublicKey{}::from_bytes rejects a reference public key ({})", n, e), format!("peer seed {}", plan.peer_seed)),
        Err(u) => return fail(st, format!("PublicKey{}::from_bytes {} on a reference public key", n, u.signature()), String::new()),
    };
    if V::pk_to_bytes(&imp_pk) != ppk_b {
        return fail(st, format!("reference public key{} re-encodes differently here", n), String::new());
    }
    let imp_sk = match crate::guard::guarded(|| V::sk_from_bytes(&psk_b)) {
        Ok(Ok(k)) => k,
        Ok(Err(e)) => return fail(st, format!("SecretKey{}::from_bytes rejects a reference secret key ({})", n, e), format!("peer seed {}", plan.peer_seed)),
        Err(u) => return fail(st, format!("SecretKey{}::from_bytes {} on a reference secret key", n, u.signature()), String::new()),
    };
    if V::sk_to_bytes(&imp_sk) != psk_b {
        return fail(st, format!("reference secret key{} re-encodes differently here", n), String::new());
    }
    // the public key derived here from the imported secret key is the reference one
    if V::pk_to_bytes(&V::pk_from_sk(&imp_sk)) != ppk_b {
        return fail(st, format!("public key derived here from an imported reference secret key{} differs from the reference public key", n), String::new());
    }
    // sizes must be the reference sizes, or the reference side cannot even take the bytes
    if osk_b.len() != V::SK_LEN || opk_b.len() != V::PK_LEN {
        return fail(st, format!("key{} exported here has a size the reference does not accept (sk {} pk {})", n, osk_b.len(), opk_b.len()), String::new());
    }
    st.inc("keys.imported_here");
    let mut rng = Prng::new(plan.stream);
    for (mi, msg) in plan.msgs.iter().enumerate() {
        // four (signer, key) combinations
        for combo in 0..4 {
            st.evaluations += 1;
            let (signer_is_ours, key_is_ours) = (combo & 1 == 0, combo & 2 == 0);
            let label = format!(
                "{} signs with {} key, message {} ({} bytes)",
                if signer_is_ours { "falcon-rust" } else { "reference" },
                if key_is_ours { "a falcon-rust" } else { "a reference" },
                mi,
                msg.len()
            );
            // our-frame signature bytes
            let ours_frame: Vec<u8> = if signer_is_ours {
                let sk = if key_is_ours { &osk } else { &imp_sk };
                // a third of the signatures made here under an entropy fault of C01's catalogue (biased
                // windows put the compressed length on the edge of the budget, forced ties and table
                // boundaries exercise the sampler's rare paths): what falcon-rust emits at its own limits
                // must still be what the reference accepts
                let mut sp = SignPlan::uniform(rng.next_u64());
                if rng.chance(1, 3) {
                    sp.mode = Some(crate::props::c01::draw_mode(&mut rng, n));
                    st.inc("signatures_here_under_entropy_faults");
                }
                match world::sign_sim::<V>(sk, msg, &sp, None).0 {
                    Ok(s) => V::sig_to_bytes(&s),
                    Err(u) => return fail(st, format!("sign{} {} with {} key", n, u.signature(), if key_is_ours { "its own" } else { "an imported reference" }), label),
                }
            } else {
                let skb = if key_is_ours { &osk_b } else { &psk_b };
                let s = match P::sign(msg, skb, rng.next_u64()) {
                    Some(s) if s.len() > 41 => s,
                    _ => {
                        if key_is_ours {
                            return fail(st, format!("the reference cannot sign with a secret key{} exported here", n), label);
                        }
                        return fail(st, "harness: reference signer failed with its own key".to_string(), label);
                    }
                };
                match pq::from_reference(&s, our_header, V::SIG_LEN) {
                    Some(b) => b,
                    None => {
                        st.inc("skipped.reference_signature_longer_than_fixed_frame");
                        continue;
                    }
                }
            };
            let (our_pk, ref_pk_bytes) = if key_is_ours { (&opk, &opk_b) } else { (&imp_pk, &ppk_b) };
            // Now and then the verifier here first receives a damaged copy of the signature (a bit set in
            // the padding, the body cut short, a stop bit removed): its verdict on that copy is nobody's
            // business here, but the genuine signature that follows must be accepted all the same.
            if rng.chance(1, 6) && ours_frame.len() > 60 {
                let mut bad = ours_frame.clone();
                match rng.below(3) {
                    0 => {
                        let l = bad.len();
                        bad[l - 1] |= 1;
                    }
                    1 => {
                        let l = bad.len();
                        for b in bad[l / 2..].iter_mut() {
                            *b = 0;
                        }
                    }
                    _ => {
                        for b in bad[41..].iter_mut() {
                            *b = 0;
                        }
                    }
                }
                let _ = crate::guard::guarded(|| match V::sig_from_bytes(&bad) {
                    Ok(s) => V::verify(msg, &s, our_pk),
                    Err(_) => false,
                });
                st.inc("damaged_copies_delivered_first");
            }
            // verifier here
            let ok_here = crate::guard::guarded(|| match V::sig_from_bytes(&ours_frame) {
                Ok(s) => V::verify(msg, &s, our_pk),
                Err(_) => false,
            });
            // reference verifier, re-framed
            let ref_frame = pq::to_reference(&ours_frame, P::SIG_HEADER);
            let ok_ref = P::verify(msg, &ref_frame, ref_pk_bytes);
            st.inc(&format!("exchange.{}_signer.{}_key", if signer_is_ours { "ours" } else { "ref" }, if key_is_ours { "ours" } else { "ref" }));
            st.distinct.insert(hash_bytes(combo as u64, &ours_frame));
            match ok_here {
                Ok(true) => {}
                Ok(false) => {
                    return fail(
                        st,
                        format!("verify{} here rejects a signature made by {} with {} key", n, if signer_is_ours { "falcon-rust" } else { "the reference" }, if key_is_ours { "a falcon-rust" } else { "a reference" }),
                        label,
                    )
                }
                Err(u) => return fail(st, format!("verify{} {}", n, u.signature()), label),
            }
            if !ok_ref {
                return fail(
                    st,
                    format!("the reference verifier rejects a signature{} made by {} with {} key", n, if signer_is_ours { "falcon-rust" } else { "the reference" }, if key_is_ours { "a falcon-rust" } else { "a reference" }),
                    label,
                );
            }
        }
    }
    // Byzantine signatures in the reference's own coefficient range: a triple whose s2 has a
    // coefficient of magnitude 1024..2047 (the reference signer emits such coefficients about once
    // in 10^6 signatures) and whose norm is within the bound. If the reference verifier accepts it,
    // the verifier here must accept it too.
    {
        let ntt = crate::reference::field::Ntt::new(n);
        let mut rng = Prng::new(plan.stream ^ 0x5a31);
        for k in 0..4 {
            // two well inside the bound, then one exactly at floor(beta^2) and one just above it
            let target = match k {
                0 | 1 => p.bound - 1 - rng.below(p.bound as u64 / 3) as i64,
                2 => p.bound,
                _ => p.bound + 1,
            };
            if let Some(tr) = crate::byz::exact_norm_triple_shape(p, &ntt, &mut rng, target, false, None, 3) {
                st.evaluations += 1;
                let ref_frame = pq::to_reference(&tr.sig, P::SIG_HEADER);
                let ok_ref = P::verify(&tr.msg, &ref_frame, &tr.pk);
                let ok_here = crate::guard::guarded(|| match (V::sig_from_bytes(&tr.sig), V::pk_from_bytes(&tr.pk)) {
                    (Ok(s), Ok(k)) => V::verify(&tr.msg, &s, &k),
                    _ => false,
                });
                st.inc(if ok_ref { "crafted.reference_accepts" } else { "crafted.reference_rejects" });
                if k >= 2 && ok_here.is_ok() && ok_here != Ok(ok_ref) {
                    return fail(
                        st,
                        format!("verify{} here and the reference verifier disagree on a crafted signature at the norm bound", n),
                        format!("{}; reference: {} here: {:?}", tr.note, ok_ref, ok_here),
                    );
                }
                if ok_ref && ok_here != Ok(true) {
                    return fail(
                        st,
                        format!("verify{} here rejects a signature the reference verifier accepts (crafted, one coefficient of magnitude 1024..2047)", n),
                        format!("{}; here: {:?}", tr.note, ok_here),
                    );
                }
            }
        }
    }
    // The same for HashToPoint: on ground salts (many rejected samples) the hash point computed here
    // (read-only hook wrapper) is compared with the specification's; where they differ, a triple that is
    // valid for the specification's point (norm exactly floor(beta^2), s2 = 1) is shown to both verifiers.
    {
        let mut rng = Prng::new(plan.stream ^ 0x26a5);
        for _ in 0..12 {
            let l = rng.usize_below(16);
            let msg = rng.bytes(l);
            let (salt, _rej) = crate::byz::grind_salt(&mut rng, &msg, n, 20000);
            let mut sm = salt.clone();
            sm.extend_from_slice(&msg);
            st.inc("crafted.hash_points_compared");
            let imp = match crate::guard::guarded(|| falcon_rust::verif_hooks::hash_to_point(&sm, n)) {
                Ok(v) => v,
                Err(_) => continue,
            };
            let refc = crate::reference::specverify::hash_to_point(&sm, n);
            let diff: Vec<usize> = (0..n).filter(|&i| imp.get(i).map(|x| *x as i64) != Some(refc[i])).collect();
            if diff.is_empty() {
                continue;
            }
            if let Some(tr) = crate::byz::flip_triple(p, &mut rng, &salt, &msg, &diff) {
                let ok_ref = P::verify(&tr.msg, &pq::to_reference(&tr.sig, P::SIG_HEADER), &tr.pk);
                let ok_here = crate::guard::guarded(|| match (V::sig_from_bytes(&tr.sig), V::pk_from_bytes(&tr.pk)) {
                    (Ok(s), Ok(k)) => V::verify(&tr.msg, &s, &k),
                    _ => false,
                });
                if ok_ref && ok_here != Ok(true) {
                    return fail(
                        st,
                        format!("verify{} here rejects a signature the reference verifier accepts (the hashed points differ)", n),
                        format!("{}; salt {}", tr.note, hex(&salt)),
                    );
                }
            }
        }
    }
    (None, st)
}

fn execute_dyn(plan: &Plan) -> (Option<(String, String)>, Stats) {
    if plan.n == 512 {
        execute::<V512, Pq512>(plan)
    } else {
        execute::<V1024, Pq1024>(plan)
    }
}

fn minimise(plan: &Plan, class: &str) -> Plan {
    let same = |p: &Plan| execute_dyn(p).0.map(|c| c.0).as_deref() == Some(class);
    // a single message, if one suffices
    for m in &plan.msgs {
        let p = Plan { msgs: vec![m.clone()], ..plan.clone() };
        if same(&p) {
            return p;
        }
    }
    let p = Plan { msgs: vec![], ..plan.clone() };
    if same(&p) {
        return p;
    }
    plan.clone()
}

/// key seeds whose generation takes a rare branch (a candidate rejected because F or G does
/// not fit eight bits): shared with C05 (corpus/C05/seeds.txt)
fn pinned() -> Vec<(usize, [u8; 32])> {
    crate::props::c05::pinned_seeds()
}

// ---------------------------------------------------------------------------
// reference keys selected for extreme features
// ---------------------------------------------------------------------------
//
// A decoder that is slightly narrower than the reference's (a bound that is off by one, an extra
// condition on the key) refuses only reference keys that sit on the edge of what the reference
// generates: a coefficient of F or of the recomputed G equal to +-127, a coefficient of f or g at
// the limit of its field, a public key that is not a unit, a public-key coefficient 0 or q-1. Such
// keys are one in hundreds or thousands; the peer's key generator is cheap, so the check generates
// thousands of reference key pairs (simulator-seeded, in parallel child processes), computes these
// features with the harness's own codec and arithmetic, and runs the exchange on the extreme ones.

pub const F_G127: u8 = 1;
pub const F_F127: u8 = 2;
pub const F_FG_LIMIT: u8 = 4;
pub const F_NONUNIT: u8 = 8;
pub const F_H_EDGE: u8 = 16;
const FEATURE_NAMES: [(u8, &str); 5] = [(F_G127, "G_has_127"), (F_F127, "F_has_127"), (F_FG_LIMIT, "fg_at_field_limit"), (F_NONUNIT, "h_not_a_unit"), (F_H_EDGE, "h_has_0_or_q_minus_1")];

fn features(n: usize, pk_b: &[u8], sk_b: &[u8]) -> u8 {
    let p = codec::params(n);
    let mut feat = 0u8;
    let ntt = crate::reference::field::Ntt::new(n);
    if let Ok(k) = codec::sk_decode(p, sk_b) {
        if k.cf.iter().any(|c| c.abs() == 127) {
            feat |= F_F127;
        }
        let lim = (1i64 << (p.fg_bits - 1)) - 1;
        if k.f.iter().chain(k.g.iter()).any(|c| c.abs() == lim) {
            feat |= F_FG_LIMIT;
        }
        // G = g F / f mod q, centred (|G| < q/2 for every key the reference generates)
        if let Some(cg) = ntt.div(&ntt.mul(&k.g, &k.cf), &k.f) {
            if cg.iter().any(|&c| crate::reference::field::centred(c).abs() == 127) {
                feat |= F_G127;
            }
        }
        if ntt.forward(&k.g).iter().any(|&x| x == 0) {
            feat |= F_NONUNIT;
        }
    }
    if let Ok(h) = codec::pk_decode(p, pk_b) {
        if h.iter().any(|&c| c == 0 || c == crate::reference::field::Q - 1) {
            feat |= F_H_EDGE;
        }
    }
    feat
}

fn mine_seed(seed: u64, n: usize, i: u64) -> u64 {
    crate::rng::hash_u64(report::run_seed(seed, "C16mine", n as u64), i)
}

/// (peer seed, features) of the extreme keys among `count` reference key pairs
fn mine<P: Peer>(seed: u64, count: u64, w: usize) -> (Vec<(u64, u8)>, u64) {
    const CHUNK: u64 = 50;
    let items: Vec<u64> = (0..(count + CHUNK - 1) / CHUNK).collect();
    let job = |c: u64| -> Vec<u8> {
        let mut out = Vec::new();
        for i in c * CHUNK..((c + 1) * CHUNK).min(count) {
            let ps = mine_seed(seed, P::N, i);
            let (pk, sk) = P::keypair(ps);
            let f = features(P::N, &pk, &sk);
            if f != 0 {
                out.extend_from_slice(&ps.to_le_bytes());
                out.push(f);
            }
        }
        out
    };
    let raw = crate::isolate::fork_map(&items, w, None, &job);
    let mut v = Vec::new();
    let mut done = 0u64;
    for c in &items {
        if let Some(Ok(b)) = raw.get(c) {
            done += CHUNK.min(count - c * CHUNK);
            for e in b.chunks_exact(9) {
                v.push((u64::from_le_bytes(e[..8].try_into().unwrap()), e[8]));
            }
        }
    }
    (v, done)
}

/// up to `per` keys per feature (rare features first)
fn select_mined(found: &[(u64, u8)], per: usize) -> Vec<(u64, u8)> {
    let mut out: Vec<(u64, u8)> = Vec::new();
    for (bit, _) in FEATURE_NAMES.iter() {
        let mut k = 0;
        for (s, f) in found {
            if f & bit != 0 && k < per {
                k += 1;
                if !out.iter().any(|(t, _)| t == s) {
                    out.push((*s, *f));
                }
            }
        }
    }
    out
}

fn mined_run(seed: u64, n: usize, idx: u64, peer_seed: u64, feat: u8) -> RunOutcome {
    let mut rng = Prng::new(report::run_seed(seed, "C16mined", (n as u64) << 32 | idx));
    let plan = Plan { n, our_seed: rng.seed32(), peer_seed, msgs: (0..3).map(|_| world::message(&mut rng)).collect(), stream: rng.next_u64() };
    let (class, st) = execute_dyn(&plan);
    let mut out = RunOutcome::default();
    out.stats = st;
    out.stats.inc("runs");
    out.stats.inc("runs.selected_reference_keys");
    for (bit, name) in FEATURE_NAMES.iter() {
        if feat & bit != 0 {
            out.stats.inc(&format!("selected_reference_key.{}.{}", n, name));
        }
    }
    if let Some((class, detail)) = class {
        let m = minimise(&plan, &class);
        out.violations.push(Violation { property: PROP, class, detail: format!("{} (reference key selected for features {:#04x})", detail, feat), replay: m.to_json(), run: (1 << 41) + ((n as u64) << 20) + idx });
    }
    out
}

// ---------------------------------------------------------------------------
// signatures at the edge of the byte budget
// ---------------------------------------------------------------------------
//
// The reference compresses s2 into the same budget as falcon-rust; an encoder that is off by a bit at the
// limit emits something only its own decoder reads. One falcon-rust key, a few hundred signatures under
// entropy fault E4 (biased windows of varying length push the compressed length up to and over the budget,
// so that the retry loop and the exact-fit cases are exercised); each must be accepted by the reference.

fn edge_run<V: Variant, P: Peer>(seed: u64, run: u64, count: usize) -> RunOutcome {
    let mut rng = Prng::new(report::run_seed(seed, "C16edge", run));
    let mut out = RunOutcome::default();
    out.stats.inc("runs");
    out.stats.inc("runs.budget_edge_signatures");
    let n = V::N;
    let ks = rng.seed32();
    let (sk, pk) = match world::keygen_sim::<V>(ks, None, None).0 {
        Ok(k) => k,
        Err(_) => return out,
    };
    let pkb = V::pk_to_bytes(&pk);
    for i in 0..count {
        let msg = rng.bytes(1 + i % 40);
        let window = *rng.pick(&[8u64, 16, 24, 32, 48, 64, 96, 128, 192, 256, 384, 512, 2 * n as u64]);
        let sp = SignPlan { stream_seed: rng.next_u64(), mode: Some(crate::entropy::Mode::BiasedWindow { window, sign: rng.below(2) as u8 }), fire: vec![] };
        let (r, tr) = world::sign_sim::<V>(&sk, &msg, &sp, None);
        let sig = match r {
            Ok(s) => V::sig_to_bytes(&s),
            Err(_) => continue, // liveness under entropy faults is C01's subject
        };
        out.stats.evaluations += 1;
        out.stats.add("natural_compress_failures", *tr.probes.get("sign.compress_fail").unwrap_or(&0));
        out.stats.distinct.insert(hash_bytes(9, &sig));
        let ok_ref = P::verify(&msg, &pq::to_reference(&sig, P::SIG_HEADER), &pkb);
        if !ok_ref {
            let plan = json!({"kind": "edge", "n": n, "key_seed_hex": hex(&ks), "msg_hex": hex(&msg), "stream": sp.stream_seed, "window": window, "sign": match sp.mode { Some(crate::entropy::Mode::BiasedWindow { sign, .. }) => sign, _ => 0 }});
            out.violations.push(Violation {
                property: PROP,
                class: format!("the reference verifier rejects a signature{} made by falcon-rust with a falcon-rust key", n),
                detail: format!("signature {} of a budget-edge run (E4 window {}), compressed part {} bytes before padding", i, window, pq::to_reference(&sig, P::SIG_HEADER).len() - 41),
                replay: plan,
                run: (1 << 41) + 7000 + run,
            });
            break;
        }
    }
    out
}

fn replay_edge(doc: &Value) -> Option<String> {
    let n = doc.get("n")?.as_u64()? as usize;
    let ks: [u8; 32] = unhex(doc.get("key_seed_hex")?.as_str()?)?.try_into().ok()?;
    let msg = unhex(doc.get("msg_hex")?.as_str()?)?;
    let sp = SignPlan { stream_seed: doc.get("stream")?.as_u64()?, mode: Some(crate::entropy::Mode::BiasedWindow { window: doc.get("window")?.as_u64()?, sign: doc.get("sign")?.as_u64()? as u8 }), fire: vec![] };
    fn go<V: Variant, P: Peer>(ks: [u8; 32], msg: &[u8], sp: &SignPlan) -> Option<String> {
        let (sk, pk) = world::keygen_sim::<V>(ks, None, None).0.ok()?;
        let sig = V::sig_to_bytes(&world::sign_sim::<V>(&sk, msg, sp, None).0.ok()?);
        if !P::verify(msg, &pq::to_reference(&sig, P::SIG_HEADER), &V::pk_to_bytes(&pk)) {
            Some(format!("the reference verifier rejects a signature{} made by falcon-rust with a falcon-rust key", V::N))
        } else {
            None
        }
    }
    if n == 512 {
        go::<V512, Pq512>(ks, &msg, &sp)
    } else {
        go::<V1024, Pq1024>(ks, &msg, &sp)
    }
}

// ---------------------------------------------------------------------------
// deep batch: reference traffic verified by several threads at once
// ---------------------------------------------------------------------------
//
// A verifier serves several peers at once. 2-5 baton-scheduled threads, each mostly with its own
// reference public key, verify reference signatures (re-framed) in the instrumented build
// (pre-emption at function entries). Whatever verify keeps between calls must not make a
// reference signature fail here.

fn deep_run(seed: u64, run: u64) -> RunOutcome {
    use crate::signers::{self, Keys, Op, OpResult, WorldPlan};
    let mut rng = Prng::new(report::run_seed(seed, "C16deep", run));
    let mut out = RunOutcome::default();
    out.stats.inc("runs");
    out.stats.inc("runs.deep_concurrent_verifiers");
    let p = codec::params(512);
    let our_header = codec::sig_header(p);
    // reference key pairs and signatures (the peer is not the code under test)
    let nkeys = 3 + rng.usize_below(4);
    let mut keys = Vec::new();
    let mut sigs: Vec<Vec<(Vec<u8>, Vec<u8>)>> = Vec::new();
    let mut peer_seeds = Vec::new();
    for _ in 0..nkeys {
        let ps = rng.next_u64();
        peer_seeds.push(ps);
        let (pk_b, sk_b) = Pq512::keypair(ps);
        let (pk, sk) = match (crate::guard::guarded(|| V512::pk_from_bytes(&pk_b)), crate::guard::guarded(|| V512::sk_from_bytes(&sk_b))) {
            (Ok(Ok(pk)), Ok(Ok(sk))) => (pk, sk),
            _ => return out, // import failures are the exchange runs' subject
        };
        let mut v = Vec::new();
        for _ in 0..6 {
            let mlen = 1 + rng.usize_below(60);
            let msg = rng.bytes(mlen);
            if let Some(sg) = Pq512::sign(&msg, &sk_b, rng.next_u64()) {
                if let Some(b) = pq::from_reference(&sg, our_header, V512::SIG_LEN) {
                    v.push((msg, b));
                }
            }
        }
        if v.is_empty() {
            return out;
        }
        keys.push((sk, pk));
        sigs.push(v);
    }
    let nthreads = 2 + rng.usize_below(4);
    let mut threads = Vec::new();
    for _ in 0..nthreads {
        let home = rng.usize_below(nkeys);
        let ops: Vec<Op> = (0..20 + rng.usize_below(40))
            .map(|_| {
                let k = if rng.chance(5, 6) { home } else { rng.usize_below(nkeys) };
                let (m, sg) = rng.pick(&sigs[k]).clone();
                Op::Verify { key: k, msg: m, sig: sg }
            })
            .collect();
        threads.push(ops);
    }
    let plan = WorldPlan { n: 512, key_seeds: Vec::new(), sched_seed: rng.next_u64(), switch_exp: Some(*rng.pick(&[2u32, 3, 4, 5, 6])), boundary: rng.below(257) as u32, threads, align: None };
    let shared: Keys<V512> = std::sync::Arc::new(keys);
    let (res, sched) = signers::execute::<V512>(&plan, shared);
    if sched.free_running {
        out.stats.inc("inconclusive.schedule_infeasible");
        return out;
    }
    out.stats.steps += sched.steps;
    out.stats.add("deep.yield_points", sched.steps);
    out.stats.add("sched.switches", sched.switches);
    out.stats.add("sched.lock_handoffs", sched.lock_handoffs);
    if sched.switches > 0 {
        out.stats.interleavings.insert(sched.trace_hash);
    }
    'outer: for (t, tr) in res.iter().enumerate() {
        let ops = match tr {
            Ok(o) => o,
            Err(u) => {
                out.violations.push(Violation { property: PROP, class: format!("simulated verifier thread died: {}", u.signature()), detail: format!("deep run {} thread {}", run, t), replay: json!({"kind": "deep-rerun", "deep": true, "seed": seed, "run": run}), run: (1 << 41) + 100 + run });
                break;
            }
        };
        for (i, r) in ops.iter().enumerate() {
            out.stats.evaluations += 1;
            let bad = match r {
                OpResult::Verified(true) => None,
                OpResult::Verified(false) => Some("verify512 here rejects a reference signature while other threads verify under other reference keys".to_string()),
                OpResult::Unwound(u) => Some(format!("verify512 {} on a reference signature", u.signature())),
                _ => None,
            };
            if let Some(class) = bad {
                out.violations.push(Violation {
                    property: PROP,
                    class,
                    detail: format!("deep run {} thread {} op {} (peer seeds {:?})", run, t, i, peer_seeds),
                    replay: json!({"kind": "deep-rerun", "deep": true, "seed": seed, "run": run}),
                    run: (1 << 41) + 100 + run,
                });
                break 'outer;
            }
        }
    }
    out
}

/// entry of the deep binary: `falcon-sim deepruns C16 <tier> <seed> <outfile>`
pub fn deepruns_main(tier: Tier, seed: u64, outfile: &str) -> i32 {
    let w = report::workers();
    let runs = if tier == Tier::Quick { 160u64 } else { 4000 };
    let mut out = report::parallel_runs(runs, w, |run| deep_run(seed, run));
    for (run, what) in report::take_dead_runs(&mut out.stats) {
        out.violations.push(Violation {
            property: PROP,
            class: format!("run's process died: {}", what),
            detail: format!("deep run {}", run),
            replay: json!({"kind": "deep-rerun", "deep": true, "seed": seed, "run": run}),
            run: (1 << 41) + 100 + run,
        });
    }
    match std::fs::write(outfile, out.to_bytes()) {
        Ok(_) => 0,
        Err(_) => 2,
    }
}

fn sizes(tier: Tier) -> (u64, u64, usize) {
    match tier {
        Tier::Quick => (48u64, 12u64, 60usize),
        Tier::Thorough => (1600, 400, 60),
    }
}

fn dispatch(tier: Tier, seed: u64, run: u64) -> RunOutcome {
    let (r512, r1024, nmsg) = sizes(tier);
    let mut rng = Prng::new(report::run_seed(seed, PROP, run));
    let pins = pinned();
    let plan = if run >= r512 + r1024 {
        // pinned rare-branch key seeds: key exchange and a few messages
        let (n, ks) = pins[(run - r512 - r1024) as usize % pins.len().max(1)];
        Plan { n, our_seed: ks, peer_seed: rng.next_u64(), msgs: (0..3).map(|_| world::message(&mut rng)).collect(), stream: rng.next_u64() }
    } else {
        let n = if run < r1024 { 1024 } else { 512 };
        Plan {
            n,
            our_seed: rng.seed32(),
            peer_seed: rng.next_u64(),
            msgs: (0..if n == 1024 { nmsg / 2 } else { nmsg }).map(|_| world::message(&mut rng)).collect(),
            stream: rng.next_u64(),
        }
    };
    let n = plan.n;
    let (class, st) = execute_dyn(&plan);
    let mut out = RunOutcome::default();
    out.stats = st;
    out.stats.inc("runs");
    out.stats.inc(&format!("variant.{}", n));
    if run >= r512 + r1024 {
        out.stats.inc("pinned_rare_branch_key_seeds");
    }
    if run == 0 || run == r1024 {
        out.stats.sample(json!({"n": n, "our_seed_hex": hex(&plan.our_seed), "peer_seed": plan.peer_seed, "messages": plan.msgs.len(), "first_message_lengths": plan.msgs.iter().take(8).map(|m| m.len()).collect::<Vec<_>>()}));
    }
    if let Some((class, detail)) = class {
        let m = minimise(&plan, &class);
        out.violations.push(Violation { property: PROP, class, detail, replay: m.to_json(), run });
    }
    out
}

pub fn runner(tier: Tier, seed: u64) -> Option<(u64, Box<dyn Fn(u64) -> RunOutcome + Sync>)> {
    let (r512, r1024, _) = sizes(tier);
    Some((r512 + r1024 + pinned().len() as u64, Box::new(move |run| dispatch(tier, seed, run))))
}

pub fn rerun(tier: Tier, seed: u64, run: u64) -> Option<RunOutcome> {
    Some(dispatch(tier, seed, run))
}

pub fn replay(doc: &Value) -> Option<String> {
    if doc.get("kind").and_then(|k| k.as_str()) == Some("edge") {
        return replay_edge(doc);
    }
    if doc.get("kind").and_then(|k| k.as_str()) == Some("deep-rerun") {
        // re-execute the deep run (a pure function of seed and run index) in its own process
        let seed = doc.get("seed")?.as_u64()?;
        let run = doc.get("run")?.as_u64()?;
        let o = crate::isolate::isolated(|| deep_run(seed, run).to_bytes(), crate::isolate::run_timeout_s()).ok()?;
        return RunOutcome::from_bytes(&o)?.violations.first().map(|v| v.class.clone());
    }
    let plan = Plan::from_json(doc)?;
    execute_dyn(&plan).0.map(|c| c.0)
}

pub fn check(tier: Tier, seed: u64) -> i32 {
    let mut rep = Report::new(PROP, tier, seed);
    let w = report::workers();
    let (r512, r1024, _nmsg) = sizes(tier);
    let out = report::parallel_runs(r512 + r1024 + pinned().len() as u64, w, |run| dispatch(tier, seed, run));
    rep.absorb(out);
    // reference keys selected for extreme features
    {
        let (c512, c1024, per) = if tier == Tier::Quick { (8000u64, 3000u64, 3usize) } else { (60000, 24000, 12) };
        let t0 = std::time::Instant::now();
        let (f512, d512) = mine::<Pq512>(seed, c512, w);
        let (f1024, d1024) = mine::<Pq1024>(seed, c1024, w);
        rep.stats.add("reference_keypairs_generated_for_selection", d512 + d1024);
        rep.extra.insert("selection_wall_s".into(), json!((t0.elapsed().as_secs_f64() * 10.0).round() / 10.0));
        let mut jobs: Vec<(usize, u64, u8)> = Vec::new();
        for (s, f) in select_mined(&f512, per) {
            jobs.push((512, s, f));
        }
        for (s, f) in select_mined(&f1024, per) {
            jobs.push((1024, s, f));
        }
        let out = report::parallel_runs(jobs.len() as u64, w, |i| {
            let (n, s, f) = jobs[i as usize];
            mined_run(seed, n, i, s, f)
        });
        rep.absorb(out);
    }
    // signatures at the edge of the byte budget
    {
        let (r1024, r512, count) = if tier == Tier::Quick { (12u64, 4u64, 250usize) } else { (96, 32, 500) };
        let out = report::parallel_runs(r1024 + r512, w, |run| if run < r1024 { edge_run::<V1024, Pq1024>(seed, run, count) } else { edge_run::<V512, Pq512>(seed, run, count) });
        rep.absorb(out);
    }
    match crate::props::run_deep_batch(PROP, tier, seed) {
        Ok(Some(o)) => rep.absorb(o),
        Ok(None) => {
            rep.stats.notes.insert("NOTE: no instrumented (deep) build available; the concurrent-verifiers batch was skipped".into());
        }
        Err(e) => {
            eprintln!("HARNESS-ERROR: {}", e);
            return 2;
        }
    }
    rep.rule = "a case is one signature exchange: for a falcon-rust key pair (from a fresh seed, or from one of the pinned seeds whose key generation takes a rare branch) and a reference key pair (PQClean keygen with simulator-seeded randombytes; either the next one, or one selected among 8000 + 3000 (thorough 60000 + 24000) for an extreme feature: a coefficient +-127 in F or in the recomputed G, a coefficient of f or g at its field limit, a public key that is not a unit, a public-key coefficient 0 or q-1), each message is signed in all four (signer, key-origin) combinations, with keys crossing as bytes, and every signature is checked by both verifiers after re-framing (header 0x50|logn <-> 0x30|logn, zero padding stripped / added); before that, key bytes are imported and re-exported on this side and the public key is re-derived from the imported secret key; 16 budget-edge runs sign 250 messages each under entropy fault E4 (biased windows of 8..2n samples) with one falcon-rust key and hand every signature to the reference verifier; a deep batch (instrumented build) has 2-5 baton-scheduled threads, each mostly with its own reference public key, verify re-framed reference signatures under function-entry pre-emption; all exchanges are non-trivial; distinct = distinct signature bytes".into();
    rep.assumptions = vec![
        "PQClean (pqcrypto-falcon 0.3.0) is the reference on honest traffic; a damaged exchange promises nothing about itself - damaged copies are delivered only to check that the genuine exchange that follows is unaffected".into(),
        "reference signatures whose compressed part exceeds this library's fixed frame cannot be re-framed and are counted as skipped".into(),
        "a failure of the reference signer with its own key is a harness error, not a violation".into(),
    ];
    rep.components = json!({
        "real": ["falcon-rust keygen/sign/verify/from_bytes/to_bytes", "PQClean falcon-512/1024 keypair, detached sign, verify (C, via FFI)"],
        "stub": ["channel (clean, in-memory)", "entropy on both sides (simulator stream behind hook H1; patched PQCRYPTO_RUST_randombytes)"],
        "model": ["re-framing of signatures between the two header conventions"],
    });
    if rep.violations.iter().any(|v| v.class.starts_with("harness")) {
        eprintln!("HARNESS-ERROR: {:?}", rep.violations.iter().find(|v| v.class.starts_with("harness")).map(|v| (&v.class, &v.detail)));
        return 2;
    }
    rep.finish(report::confirm_in_fresh_process)
}
