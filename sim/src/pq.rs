//! The heterogeneous peer: the Falcon reference implementation (PQClean C code,
//! vendored by the `pqcrypto-falcon` crate). Its `randombytes` is replaced by a
//! simulator-seeded generator through the patched `pqcrypto-internals` under
//! /verif/vendor, so a PQClean node replays bit-exactly from the run seed.

use pqcrypto_traits::sign::{DetachedSignature as _, PublicKey as _, SecretKey as _};

pub trait Peer {
    const N: usize;
    /// header byte of a reference detached signature (0x30 | logn)
    const SIG_HEADER: u8;
    /// (pk bytes, sk bytes)
    fn keypair(seed: u64) -> (Vec<u8>, Vec<u8>);
    /// detached signature bytes: header, 40-byte nonce, compressed s2 (unpadded)
    fn sign(msg: &[u8], sk: &[u8], seed: u64) -> Option<Vec<u8>>;
    fn verify(msg: &[u8], sig: &[u8], pk: &[u8]) -> bool;
}

fn seed_peer(seed: u64) {
    // 0 would select OS entropy in the patched crate
    pqcrypto_internals::sim_seed(seed | 1);
}

macro_rules! peer {
    ($ty:ident, $m:ident, $n:expr, $hdr:expr) => {
        pub struct $ty;
        impl Peer for $ty {
            const N: usize = $n;
            const SIG_HEADER: u8 = $hdr;
            fn keypair(seed: u64) -> (Vec<u8>, Vec<u8>) {
                seed_peer(seed);
                let (pk, sk) = pqcrypto_falcon::$m::keypair();
                (pk.as_bytes().to_vec(), sk.as_bytes().to_vec())
            }
            fn sign(msg: &[u8], sk: &[u8], seed: u64) -> Option<Vec<u8>> {
                let sk = pqcrypto_falcon::$m::SecretKey::from_bytes(sk).ok()?;
                seed_peer(seed);
                let d = pqcrypto_falcon::$m::detached_sign(msg, &sk);
                Some(d.as_bytes().to_vec())
            }
            fn verify(msg: &[u8], sig: &[u8], pk: &[u8]) -> bool {
                let pk = match pqcrypto_falcon::$m::PublicKey::from_bytes(pk) {
                    Ok(p) => p,
                    Err(_) => return false,
                };
                let d = match pqcrypto_falcon::$m::DetachedSignature::from_bytes(sig) {
                    Ok(d) => d,
                    Err(_) => return false,
                };
                pqcrypto_falcon::$m::verify_detached_signature(&d, msg, &pk).is_ok()
            }
        }
    };
}

peer!(Pq512, falcon512, 512, 0x39);
peer!(Pq1024, falcon1024, 1024, 0x3a);

/// falcon-rust frame -> reference frame: re-label the header, strip the zero padding
pub fn to_reference(sig: &[u8], ref_header: u8) -> Vec<u8> {
    let mut b = sig.to_vec();
    if b.is_empty() {
        return b;
    }
    b[0] = ref_header;
    // a well-formed compressed string ends in a stop bit, so its last byte is non-zero
    while b.len() > 41 && *b.last().unwrap() == 0 {
        b.pop();
    }
    b
}

/// reference frame -> falcon-rust frame: re-label, pad to the fixed length; None if too long
pub fn from_reference(sig: &[u8], our_header: u8, our_len: usize) -> Option<Vec<u8>> {
    if sig.len() > our_len || sig.len() < 41 {
        return None;
    }
    let mut b = sig.to_vec();
    b[0] = our_header;
    b.resize(our_len, 0);
    Some(b)
}
