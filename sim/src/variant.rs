//! Thin, typed access to the *real* falcon-rust public API for both variants.
//! The constants here are taken from the specification (falcon.pdf v1.2,
//! table 3.3), not from the repository.

use falcon_rust::{falcon1024, falcon512};

pub trait Variant: 'static + Send + Sync {
    const N: usize;
    const LOGN: u8;
    const SK_LEN: usize;
    const PK_LEN: usize;
    const SIG_LEN: usize;
    /// floor(beta^2)
    const BOUND: i64;
    const SIGMA: f64;
    const SIGMIN: f64;
    const NAME: &'static str;
    /// bits per coefficient of f, g in the secret-key encoding
    const FG_BITS: usize;

    type Sk: Clone + Send + Sync + PartialEq + std::fmt::Debug + 'static;
    type Pk: Clone + Send + Sync + PartialEq + std::fmt::Debug + 'static;
    type Sig: Clone + Send + Sync + PartialEq + std::fmt::Debug + 'static;

    fn keygen(seed: [u8; 32]) -> (Self::Sk, Self::Pk);
    fn sign(msg: &[u8], sk: &Self::Sk) -> Self::Sig;
    fn verify(msg: &[u8], sig: &Self::Sig, pk: &Self::Pk) -> bool;
    fn sk_to_bytes(sk: &Self::Sk) -> Vec<u8>;
    fn pk_to_bytes(pk: &Self::Pk) -> Vec<u8>;
    fn sig_to_bytes(sig: &Self::Sig) -> Vec<u8>;
    fn sk_from_bytes(b: &[u8]) -> Result<Self::Sk, String>;
    fn pk_from_bytes(b: &[u8]) -> Result<Self::Pk, String>;
    fn sig_from_bytes(b: &[u8]) -> Result<Self::Sig, String>;
    fn pk_from_sk(sk: &Self::Sk) -> Self::Pk;
    /// the other public route from a seed to a secret key (`keygen` = this + `pk_from_sk`)
    fn sk_from_seed(seed: [u8; 32]) -> Self::Sk;
}

pub struct V512;
pub struct V1024;

macro_rules! impl_variant {
    ($ty:ident, $m:ident, $n:expr, $logn:expr, $sk:expr, $pk:expr, $sig:expr, $bound:expr, $sigma:expr, $sigmin:expr, $name:expr, $fg:expr) => {
        impl Variant for $ty {
            const N: usize = $n;
            const LOGN: u8 = $logn;
            const SK_LEN: usize = $sk;
            const PK_LEN: usize = $pk;
            const SIG_LEN: usize = $sig;
            const BOUND: i64 = $bound;
            const SIGMA: f64 = $sigma;
            const SIGMIN: f64 = $sigmin;
            const NAME: &'static str = $name;
            const FG_BITS: usize = $fg;
            type Sk = $m::SecretKey;
            type Pk = $m::PublicKey;
            type Sig = $m::Signature;
            fn keygen(seed: [u8; 32]) -> (Self::Sk, Self::Pk) {
                $m::keygen(seed)
            }
            fn sign(msg: &[u8], sk: &Self::Sk) -> Self::Sig {
                $m::sign(msg, sk)
            }
            fn verify(msg: &[u8], sig: &Self::Sig, pk: &Self::Pk) -> bool {
                $m::verify(msg, sig, pk)
            }
            fn sk_to_bytes(sk: &Self::Sk) -> Vec<u8> {
                sk.to_bytes()
            }
            fn pk_to_bytes(pk: &Self::Pk) -> Vec<u8> {
                pk.to_bytes()
            }
            fn sig_to_bytes(sig: &Self::Sig) -> Vec<u8> {
                sig.to_bytes()
            }
            fn sk_from_bytes(b: &[u8]) -> Result<Self::Sk, String> {
                $m::SecretKey::from_bytes(b).map_err(|e| format!("{:?}", e))
            }
            fn pk_from_bytes(b: &[u8]) -> Result<Self::Pk, String> {
                $m::PublicKey::from_bytes(b).map_err(|e| format!("{:?}", e))
            }
            fn sig_from_bytes(b: &[u8]) -> Result<Self::Sig, String> {
                $m::Signature::from_bytes(b).map_err(|e| format!("{:?}", e))
            }
            fn pk_from_sk(sk: &Self::Sk) -> Self::Pk {
                $m::PublicKey::from_secret_key(sk)
            }
            fn sk_from_seed(seed: [u8; 32]) -> Self::Sk {
                $m::SecretKey::generate_from_seed(seed)
            }
        }
    };
}

impl_variant!(
    V512,
    falcon512,
    512,
    9,
    1281,
    897,
    666,
    34034726,
    165.7366171829776,
    1.2778336969128337,
    "falcon512",
    6
);
impl_variant!(
    V1024,
    falcon1024,
    1024,
    10,
    2305,
    1793,
    1280,
    70265242,
    168.38857144654395,
    1.298280334344292,
    "falcon1024",
    5
);

pub const SIGMA_MAX: f64 = 1.8205;
pub const Q: i64 = 12289;
