//! Unwind capture. Nodes of the simulated world run inside `guarded`; an unwind
//! that originates in the code under test is reported with its source location,
//! an unwind raised by the harness itself (step cap) carries a private payload
//! type and is reported separately.

use std::cell::RefCell;
use std::panic::{self, AssertUnwindSafe};
use std::sync::Once;

/// Payload raised by the harness from inside a seam when the logical step
/// bound of an operation is exceeded (bounded liveness).
#[derive(Debug, Clone)]
pub struct NoProgress {
    pub draws: u64,
    pub what: &'static str,
}

#[derive(Debug, Clone, PartialEq)]
pub enum Unwind {
    /// the code under test panicked
    Code { location: String, message: String },
    /// the harness stopped an operation that exceeded its step bound
    NoProgress { draws: u64, what: String },
}

impl Unwind {
    pub fn signature(&self) -> String {
        match self {
            Unwind::Code { location, .. } => format!("unwind at {}", location),
            Unwind::NoProgress { what, .. } => format!("no progress: {}", what),
        }
    }
}

thread_local! {
    static LAST: RefCell<Option<(String, String)>> = RefCell::new(None);
}

static HOOK: Once = Once::new();

/// location and message of the most recent panic on this thread, if any
pub fn last_panic() -> Option<(String, String)> {
    LAST.try_with(|l| l.borrow().clone()).ok().flatten()
}

pub fn install_hook() {
    HOOK.call_once(|| {
        let verbose = std::env::var("VERIF_PANIC_VERBOSE").is_ok();
        let default = panic::take_hook();
        panic::set_hook(Box::new(move |info| {
            let loc = info
                .location()
                .map(|l| {
                    let f = l.file();
                    // keep the path relative to the repository
                    let f = f.strip_prefix("/repo/").unwrap_or(f);
                    format!("{}:{}", f, l.line())
                })
                .unwrap_or_else(|| "?".into());
            let msg = if let Some(s) = info.payload().downcast_ref::<&str>() {
                s.to_string()
            } else if let Some(s) = info.payload().downcast_ref::<String>() {
                s.clone()
            } else if info.payload().downcast_ref::<NoProgress>().is_some() {
                "harness:NoProgress".to_string()
            } else {
                "<non-string payload>".to_string()
            };
            // (try_with: the hook may run while the thread's locals are being destroyed)
            let _ = LAST.try_with(|l| *l.borrow_mut() = Some((loc, msg)));
            if verbose {
                default(info);
            }
        }));
    });
}

/// Run `f`, converting any unwind into a value.
pub fn guarded<T>(f: impl FnOnce() -> T) -> Result<T, Unwind> {
    install_hook();
    let _ = LAST.try_with(|l| *l.borrow_mut() = None);
    match panic::catch_unwind(AssertUnwindSafe(f)) {
        Ok(v) => Ok(v),
        Err(payload) => {
            if let Some(np) = payload.downcast_ref::<NoProgress>() {
                return Err(Unwind::NoProgress {
                    draws: np.draws,
                    what: np.what.to_string(),
                });
            }
            let (location, message) = LAST
                .try_with(|l| l.borrow_mut().take())
                .ok()
                .flatten()
                .unwrap_or_else(|| ("a thread-local destructor".into(), "?".into()));
            Err(Unwind::Code { location, message })
        }
    }
}
