//! falcon-sim: deterministic simulation with fault injection for falcon-rust.
//!   falcon-sim check <C01|…> <quick|thorough>
//!   falcon-sim replay <file>
//!   falcon-sim selftest
//! Exit codes: 0 property held on everything explored; 1 violation; 2 harness error.

mod byz;
mod deep;
mod deliveries;
mod determinism;
mod entropy;
mod faults;
mod guard;
mod isolate;
mod pq;
mod props;
mod reference;
mod report;
mod rng;
mod sched;
mod selftest;
mod signers;
mod simclock;
mod variant;
mod world;

use report::Tier;

fn seed_from_env() -> u64 {
    match std::env::var("VERIF_SEED") {
        Ok(s) => s.trim().parse::<u64>().unwrap_or_else(|_| rng::hash_bytes(0, s.as_bytes())),
        Err(_) => report::DEFAULT_SEED,
    }
}

fn main() {
    guard::install_hook();
    if cfg!(feature = "deep") {
        deep::init();
    }
    let args: Vec<String> = std::env::args().collect();
    if args.len() < 2 {
        eprintln!("usage: falcon-sim check <ID> <quick|thorough> | replay <file> | selftest");
        std::process::exit(2);
    }
    let code = match args[1].as_str() {
        "selftest" => {
            let r = selftest::run();
            if r != 0 || args.get(2).map(|s| s != "full").unwrap_or(true) {
                r
            } else {
                determinism::run(&[], Tier::Quick, seed_from_env(), 8)
            }
        }
        "c08-child" => props::c08::child_main(&args[2..]),
        "c15-child" => props::c15::child_main(&args[2..]),
        "c02-cold-child" => props::c02::cold_child_main(&args[2..]),
        "det-child" => determinism::child_main(&args[2..]),
        "stall-seed" => {
            // reproduce the repository's test_stalling_operation_falcon_1024 for a printed seed
            use rand::{RngCore, Rng, SeedableRng};
            let seed: [u8; 32] = rng::unhex(&args[2]).and_then(|v| v.try_into().ok()).expect("seed hex");
            let mut r = rand::rngs::StdRng::from_seed(seed);
            let mut msg = [0u8; 5];
            r.fill_bytes(&mut msg);
            let ks: [u8; 32] = r.gen();
            println!("keygen seed {}", rng::hex(&ks));
            let (res, tr) = world::keygen_sim::<variant::V1024>(ks, None, None);
            println!("attempts {} result {:?}", tr.attempts, res.as_ref().map(|_| "ok").map_err(|u| u.signature()));
            0
        }
        "model-agreement" => {
            // model-agreement <n> <count>: is the reference model of the candidate stream in lock-step
            // with the tree's key generation? (the accepted (f, g) must be candidate number `attempts`)
            let n: usize = args.get(2).and_then(|s| s.parse().ok()).unwrap_or(512);
            let count: u64 = args.get(3).and_then(|s| s.parse().ok()).unwrap_or(4);
            let mut bad = 0;
            for c in 0..count {
                let seed = rng::counter_seed(1000 + c);
                let (r, tr) = if n == 512 {
                    let (r, tr) = world::keygen_sim::<variant::V512>(seed, None, None);
                    (r.map(|(sk, _)| <variant::V512 as variant::Variant>::sk_to_bytes(&sk)), tr)
                } else {
                    let (r, tr) = world::keygen_sim::<variant::V1024>(seed, None, None);
                    (r.map(|(sk, _)| <variant::V1024 as variant::Variant>::sk_to_bytes(&sk)), tr)
                };
                let skb = match r {
                    Ok(b) => b,
                    Err(_) => continue,
                };
                let k = reference::codec::sk_decode(reference::codec::params(n), &skb).expect("sk decodes");
                let cands = reference::keygen::candidates(seed, n, tr.attempts as usize);
                let ok = cands.last().map(|(f, g)| *f == k.f && *g == k.g).unwrap_or(false);
                println!("seed {} attempts {} model agrees: {}", c, tr.attempts, ok);
                if !ok {
                    bad += 1;
                }
            }
            if bad > 0 { 1 } else { 0 }
        }
        "candidate-roots" => {
            // candidate-roots <n> <seed_hex> <count>: zeros of the first candidates' f among all roots
            let n: usize = args.get(2).and_then(|s| s.parse().ok()).unwrap_or(512);
            let seed: [u8; 32] = rng::unhex(&args[3]).and_then(|v| v.try_into().ok()).expect("seed hex");
            let count: usize = args.get(4).and_then(|s| s.parse().ok()).unwrap_or(8);
            let ntt = reference::field::Ntt::new(n);
            let psi = reference::field::powq(1331, (4096 / (2 * n)) as u64);
            for (i, (f, _g)) in reference::keygen::candidates(seed, n, count).iter().enumerate() {
                let zeros: Vec<usize> = ntt.forward(f).iter().enumerate().filter(|(_, &x)| x == 0).map(|(k, _)| k).collect();
                // exponent e with f(psi^e) = 0
                let mut exps = Vec::new();
                let mut r = psi;
                for e in (1..2 * n).step_by(2) {
                    if reference::keygen::eval(f, r) == 0 {
                        exps.push(e);
                    }
                    r = r * psi % 12289 * psi % 12289;
                }
                println!("candidate {} zero slots (harness order) {:?} exponents of 1331^(4096/2n) {:?}", i, zeros, exps);
            }
            0
        }
        "dump-run" => {
            // dump-run <id> <tier> <run>: the outcome of one run as JSON (debugging aid)
            let tier = if args.get(3).map(|s| s.as_str()) == Some("thorough") { Tier::Thorough } else { Tier::Quick };
            let run: u64 = args.get(4).and_then(|s| s.parse().ok()).unwrap_or(0);
            match props::runner(&args[2], tier, seed_from_env()) {
                Some((_, f)) => {
                    let b = isolate::isolated(|| f(run).to_bytes(), isolate::run_timeout_s()).unwrap_or_default();
                    println!("{}", String::from_utf8_lossy(&b));
                    0
                }
                None => 2,
            }
        }
        "clock-test" => {
            // does the harness's clock_gettime stand in front of std's Instant?
            let t0 = std::time::Instant::now();
            let quiet = t0.elapsed().as_secs_f64();
            let (dt, reads, jumps) = {
                let _g = simclock::enable(42);
                let a = std::time::Instant::now();
                let mut last = a;
                for _ in 0..20 {
                    last = std::time::Instant::now();
                }
                (last.duration_since(a).as_secs_f64(), simclock::counters().0, simclock::counters().1)
            };
            let after = std::time::Instant::now().duration_since(t0).as_secs_f64();
            println!("without faults: {:.6}s; with faults on: {:.0}s apparent over 21 reads ({} reads seen, {} jumps); faults off again, 1 more read: {:.0}s since start", quiet, dt, reads, jumps, after);
            if dt > 60.0 { 0 } else { 1 }
        }
        "mine-norm" => {
            // mine-norm <n> <scan>: seeds whose accepted candidate sits at the norm bound of key generation
            let n: usize = args.get(2).and_then(|s| s.parse().ok()).unwrap_or(512);
            let scan: u64 = args.get(3).and_then(|s| s.parse().ok()).unwrap_or(4000);
            let base = report::run_seed(seed_from_env(), "mine-norm", n as u64);
            let seed_of = move |i: u64| -> [u8; 32] { rng::Prng::new(rng::hash_u64(base, i)).seed32() };
            let items: Vec<u64> = (0..(scan + 199) / 200).collect();
            let job = |c: u64| -> Vec<u8> {
                let mut out = String::new();
                for i in c * 200..((c + 1) * 200).min(scan) {
                    if let Some((j, g1, gs)) = reference::keygen::accepted_candidate(seed_of(i), n, 64) {
                        let bound = 1.3689 * 12289.0;
                        if g1 >= 16820 || gs >= 0.9998 * bound {
                            out.push_str(&format!("{} {} candidate {} fg_norm_sq {} gs_norm_sq {:.3}\n", n, rng::hex(&seed_of(i)), j, g1, gs));
                        }
                    }
                }
                out.into_bytes()
            };
            let res = isolate::fork_map(&items, report::workers(), None, &job);
            for (_, r) in res {
                if let Ok(b) = r {
                    print!("{}", String::from_utf8_lossy(&b));
                }
            }
            0
        }
        "mine-seeds" => {
            let n: usize = args.get(2).and_then(|s| s.parse().ok()).unwrap_or(512);
            let scan: u64 = args.get(3).and_then(|s| s.parse().ok()).unwrap_or(4000);
            let t0 = std::time::Instant::now();
            let v = world::mine_keygen_seeds(seed_from_env(), n, scan, 100, report::workers());
            for (s, r) in &v {
                println!("{} root {}", rng::hex(s), r);
            }
            println!("{} seeds among {} in {:.1}s", v.len(), scan, t0.elapsed().as_secs_f64());
            0
        }
        "scan-seeds" => {
            // scan-seeds <n> <from> <to>: counter seeds whose keygen takes a rare branch
            // (range rejection of a candidate, or more than 100 ntru_gen attempts)
            let n: usize = args.get(2).and_then(|s| s.parse().ok()).unwrap_or(512);
            let from: u64 = args.get(3).and_then(|s| s.parse().ok()).unwrap_or(0);
            let to: u64 = args.get(4).and_then(|s| s.parse().ok()).unwrap_or(0);
            let items: Vec<u64> = (from..to).collect();
            let job = |c: u64| -> Vec<u8> {
                use variant::{V1024, V512};
                let seed = rng::counter_seed(c);
                let tr = if n == 512 { world::keygen_sim::<V512>(seed, None, None).1 } else { world::keygen_sim::<V1024>(seed, None, None).1 };
                format!("{} {} {}", tr.attempts, tr.reject_fg_range, tr.reject_cap_range).into_bytes()
            };
            let res = isolate::fork_map(&items, report::workers(), None, &job);
            for (c, r) in res {
                if let Ok(b) = r {
                    let t = String::from_utf8_lossy(&b).to_string();
                    let v: Vec<u64> = t.split_whitespace().filter_map(|x| x.parse().ok()).collect();
                    if v.len() == 3 && (v[0] > 100 || v[1] > 0 || v[2] > 0) {
                        println!("SEED {} {} attempts={} reject_fg={} reject_FG={}", n, c, v[0], v[1], v[2]);
                    }
                }
            }
            0
        }
        "deepruns" => {
            // deepruns C01 <tier> <seed> <outfile>
            let tier = if args.get(3).map(|s| s == "thorough").unwrap_or(false) { Tier::Thorough } else { Tier::Quick };
            let seed: u64 = args.get(4).and_then(|s| s.parse().ok()).unwrap_or(report::DEFAULT_SEED);
            let out = args.get(5).map(|s| s.as_str()).unwrap_or("/dev/null");
            match args.get(2).map(|s| s.as_str()) {
                Some("C02") => props::c02::deepruns_main(tier, seed, out),
                Some("C05") => props::c05::deepruns_main(tier, seed, out),
                Some("C08") => props::c08::deepruns_main(tier, seed, out),
                Some("C09") => props::c09::deepruns_main(tier, seed, out),
                Some("C16") => props::c16::deepruns_main(tier, seed, out),
                Some("C15") => props::c15::deepruns_main(tier, seed, out),
                _ => props::c01::deepruns_main(tier, seed, out),
            }
        }
        "determinism" => {
            // determinism [quick|thorough] [samples] [ids...]
            let tier = if args.get(2).map(|s| s == "thorough").unwrap_or(false) { Tier::Thorough } else { Tier::Quick };
            let samples: usize = args.get(3).and_then(|s| s.parse().ok()).unwrap_or(8);
            let ids: Vec<String> = args.iter().skip(4).cloned().collect();
            determinism::run(&ids, tier, seed_from_env(), samples)
        }
        "check" => {
            if args.len() < 4 {
                eprintln!("usage: falcon-sim check <ID> <quick|thorough>");
                std::process::exit(2);
            }
            let tier = match args[3].as_str() {
                "quick" => Tier::Quick,
                "thorough" => Tier::Thorough,
                _ => {
                    eprintln!("unknown tier");
                    std::process::exit(2)
                }
            };
            let seed = seed_from_env();
            println!("VERIF_SEED={} property={} tier={}", seed, args[2], tier.name());
            if selftest::run() != 0 {
                eprintln!("HARNESS-ERROR: self-test failed");
                std::process::exit(2);
            }
            match props::check(args[2].as_str(), tier, seed) {
                Some(c) => c,
                None => {
                    eprintln!("unknown or not-applicable property {}", args[2]);
                    2
                }
            }
        }
        "replay" => {
            let doc: serde_json::Value = match std::fs::read_to_string(&args[2]).ok().and_then(|s| serde_json::from_str(&s).ok()) {
                Some(d) => d,
                None => {
                    eprintln!("cannot read replay file");
                    std::process::exit(2)
                }
            };
            let prop = doc.get("property").and_then(|p| p.as_str()).unwrap_or("");
            if doc.get("deep").and_then(|d| d.as_bool()) == Some(true) && !cfg!(feature = "deep") {
                // this plan needs the instrumented build: hand over
                match std::env::var("VERIF_DEEP_BIN").ok().filter(|p| std::path::Path::new(p).exists()) {
                    Some(bin) => {
                        let st = std::process::Command::new(bin).args(["replay", &args[2]]).status();
                        std::process::exit(st.ok().and_then(|s| s.code()).unwrap_or(2));
                    }
                    None => {
                        eprintln!("replay: this file needs the instrumented (deep) build; run it through ./check replay");
                        std::process::exit(2);
                    }
                }
            }
            let r = match props::replay(prop, &doc) {
                Some(r) => r,
                None => {
                    eprintln!("replay: unknown property {:?}", prop);
                    std::process::exit(2)
                }
            };
            match r {
                Some(class) => {
                    println!("REPRODUCED class={}", class);
                    1
                }
                None => {
                    println!("NOT-REPRODUCED");
                    0
                }
            }
        }
        _ => {
            eprintln!("unknown command");
            2
        }
    };
    std::process::exit(code);
}
