fn main() {
    let v = serde_json::json!({"a": 1});
    println!("{}", v);
    let (sk, pk) = falcon_rust::falcon512::keygen([1u8; 32]);
    let sig = falcon_rust::falcon512::sign(b"x", &sk);
    println!("{}", falcon_rust::falcon512::verify(b"x", &sig, &pk));
    use pqcrypto_traits::sign::*;
    let (ppk, psk) = pqcrypto_falcon::falcon512::keypair();
    println!("{} {}", ppk.as_bytes().len(), psk.as_bytes().len());
}
